package c51

import (
	"fmt"
	"os"
	"sort"
	"strings"
	"time"

	"verif/mc/core"
	"verif/mc/eng"
	"verif/mc/hist"
)

// ------------------------------------------------------------------------------------------
// part 2: "sync" — DML histories
// ------------------------------------------------------------------------------------------

// op is one statement of the history alphabet together with its effect on the row model.
type op struct {
	Kind string // insert | update | delete | replace | truncate
	Name string
	SQL  func(sh *shape) string
	// Apply returns the new rows, or errClass != "" when the statement must fail (rows unchanged).
	Apply func(sh *shape, rows []row) (out []row, errClass string)
}

func keyed(sh *shape) bool { return sh.Key != "none" }

func hasID(rows []row, id int) bool {
	for _, r := range rows {
		if r.ID == id {
			return true
		}
	}
	return false
}

func cloneRows(rows []row) []row { return append([]row{}, rows...) }

func insertOp(name string, newRows ...row) op {
	return op{Kind: "insert", Name: name,
		SQL: func(sh *shape) string {
			var p []string
			for _, r := range newRows {
				p = append(p, r.values())
			}
			return "insert into t values " + strings.Join(p, ",")
		},
		Apply: func(sh *shape, rows []row) ([]row, string) {
			out := cloneRows(rows)
			for _, nr := range newRows {
				if keyed(sh) && hasID(out, nr.ID) {
					return rows, "duplicate-key"
				}
				out = append(out, nr)
			}
			return out, ""
		}}
}

func replaceOp(name string, nr row) op {
	return op{Kind: "replace", Name: name,
		SQL: func(sh *shape) string { return "replace into t values " + nr.values() },
		Apply: func(sh *shape, rows []row) ([]row, string) {
			var out []row
			for _, r := range rows {
				if keyed(sh) && r.ID == nr.ID {
					continue
				}
				out = append(out, r)
			}
			return append(out, nr), ""
		}}
}

func updateOp(name, sql string, f func(sh *shape, r row) row) op {
	return op{Kind: "update", Name: name,
		SQL: func(sh *shape) string { return sql },
		Apply: func(sh *shape, rows []row) ([]row, string) {
			out := make([]row, len(rows))
			for i, r := range rows {
				out[i] = f(sh, r)
			}
			if keyed(sh) { // a key-changing update may collide
				seen := map[int]bool{}
				for _, r := range out {
					if seen[r.ID] {
						return rows, "duplicate-key"
					}
					seen[r.ID] = true
				}
			}
			return out, ""
		}}
}

func deleteOp(name string, sql func(sh *shape) string, pred func(sh *shape, r row) bool) op {
	return op{Kind: "delete", Name: name, SQL: sql,
		Apply: func(sh *shape, rows []row) ([]row, string) {
			var out []row
			for _, r := range rows {
				if !pred(sh, r) {
					out = append(out, r)
				}
			}
			return out, ""
		}}
}

var syncOps = []op{
	insertOp("ins1", row{1, 0, sp("cat dog"), sp("the")}),
	insertOp("ins2", row{2, 0, sp("Cat,the cat"), nil}),
	insertOp("insM", row{4, 0, sp("a-b x\nthe"), sp("Cat")}, row{3, 0, sp("dog"), sp("x")}),
	updateOp("upd1", "update t set d='the dog' where id=1", func(sh *shape, r row) row {
		if r.ID == 1 {
			r.D = sp("the dog")
		}
		return r
	}),
	updateOp("updAllD", "update t set d='cat'", func(sh *shape, r row) row { r.D = sp("cat"); return r }),
	updateOp("updNull", "update t set d=NULL where id=2", func(sh *shape, r row) row {
		if r.ID == 2 {
			r.D = nil
		}
		return r
	}),
	updateOp("updE", "update t set e='dog' where id<=2", func(sh *shape, r row) row {
		if r.ID <= 2 {
			r.E = sp("dog")
		}
		return r
	}),
	updateOp("updN", "update t set n=n+1", func(sh *shape, r row) row { r.N++; return r }),
	updateOp("updKey", "update t set id=id+10 where id=1", func(sh *shape, r row) row {
		if r.ID == 1 {
			r.ID = 11
		}
		return r
	}),
	deleteOp("del1", func(sh *shape) string { return "delete from t where id=1" }, func(sh *shape, r row) bool { return r.ID == 1 }),
	deleteOp("delMatch", func(sh *shape) string {
		return "delete from t where match(" + strings.Join(sh.Indexes[0].Cols, ",") + ") against ('cat')"
	}, func(sh *shape, r row) bool { return refMatch(r.cols(sh.Indexes[0]), "cat", sh.CI) }),
	replaceOp("rep1", row{1, 0, sp("x cat"), sp("dog")}),
	replaceOp("rep3", row{3, 1, sp("dog dog"), nil}),
	{Kind: "truncate", Name: "trunc", SQL: func(sh *shape) string { return "truncate table t" },
		Apply: func(sh *shape, rows []row) ([]row, string) { return nil, "" }},
}

func rowsKey(rows []row) string {
	p := make([]string, len(rows))
	for i, r := range rows {
		p[i] = r.String()
	}
	sort.Strings(p)
	return strings.Join(p, " ")
}

// ------------------------------------------------------------------------------------------
// shadow tables
// ------------------------------------------------------------------------------------------

var shadowKinds = []string{"POSITION", "DOC_COUNT", "GLOBAL_COUNT", "ROW_COUNT"}

// shadowDump: index name -> kind -> sorted rows.
func shadowDump(s *eng.Session, sh *shape) (map[string]map[string][]string, error) {
	tabs := s.Exec("show tables")
	if tabs.Err != nil {
		return nil, tabs.Err
	}
	out := map[string]map[string][]string{}
	for _, ix := range sh.Indexes {
		out[ix.Name] = map[string][]string{}
		for _, kind := range shadowKinds {
			var name string
			n := 0
			for _, tr := range tabs.Rows {
				tn := fmt.Sprint(tr[0])
				if strings.HasPrefix(tn, "t_"+ix.Name+"_") && strings.HasSuffix(tn, "_FTS_"+kind) {
					name = tn
					n++
				}
			}
			if n != 1 {
				return nil, fmt.Errorf("expected one %s table for index %s, found %d", kind, ix.Name, n)
			}
			res := s.Exec("select * from `" + name + "`")
			if res.Err != nil {
				return nil, fmt.Errorf("%s: %v", name, res.Err)
			}
			out[ix.Name][kind] = res.Multiset()
		}
	}
	return out, nil
}

func dumpKey(d map[string]map[string][]string, sh *shape) string {
	var sb strings.Builder
	for _, ix := range sh.Indexes {
		for _, kind := range shadowKinds {
			fmt.Fprintf(&sb, "%s.%s:%s\n", ix.Name, kind, strings.Join(d[ix.Name][kind], " "))
		}
	}
	return sb.String()
}

// refShadowProblems compares the count tables with the reference counts computed from the rows.
// Returns (kind-of-table, observed, expected) of the first problem.
func refShadowProblem(s *eng.Session, sh *shape, ix ftIndex, rows []row, d map[string][]string) (table, obs, exp string) {
	// GLOBAL_COUNT: word -> number of rows containing it
	var cols [][]*string
	for _, r := range rows {
		cols = append(cols, r.cols(ix))
	}
	g := refGlobal(cols, sh.CI)
	var wantG []string
	for _, w := range sortedKeys(g) {
		wantG = append(wantG, fmt.Sprintf("('%s',%d)", w, g[w]))
	}
	gotG := foldRows(d["GLOBAL_COUNT"], sh.CI)
	sort.Strings(wantG)
	if !eng.EqualStrings(gotG, wantG) {
		return "GLOBAL_COUNT", strings.Join(gotG, " "), strings.Join(wantG, " ")
	}
	// DOC_COUNT: per distinct key (pk/unique: id; keyless: row hash, opaque) word -> occurrences.
	// Compare the multiset of (word,count) with the key dropped, where rows sharing all columns
	// (keyless duplicates) share one entry.
	wantD := []string{}
	seenRow := map[string]bool{}
	for _, r := range rows {
		k := r.String()
		if !keyed(sh) {
			if seenRow[k] {
				continue
			}
			seenRow[k] = true
		}
		dc := refDocCounts(r.cols(ix), sh.CI)
		for _, w := range sortedKeys(dc) {
			if keyed(sh) {
				wantD = append(wantD, fmt.Sprintf("('%s',%d,%d)", w, r.ID, dc[w]))
			} else {
				wantD = append(wantD, fmt.Sprintf("('%s',%d)", w, dc[w]))
			}
		}
	}
	sort.Strings(wantD)
	gotD := foldRows(d["DOC_COUNT"], sh.CI)
	if !keyed(sh) {
		for i, x := range gotD {
			gotD[i] = dropField(x, 1)
		}
		sort.Strings(gotD)
	}
	if !eng.EqualStrings(gotD, wantD) {
		return "DOC_COUNT", strings.Join(gotD, " "), strings.Join(wantD, " ")
	}
	// ROW_COUNT: one entry per distinct full row: (hash, number of identical rows, distinct words)
	type rc struct{ n, uniq int }
	cnt := map[string]*rc{}
	for _, r := range rows {
		k := r.String()
		if cnt[k] == nil {
			cnt[k] = &rc{uniq: len(refDocCounts(r.cols(ix), sh.CI))}
		}
		cnt[k].n++
	}
	var wantR []string
	for _, c := range cnt {
		wantR = append(wantR, fmt.Sprintf("(%d,%d)", c.n, c.uniq))
	}
	sort.Strings(wantR)
	gotR := append([]string{}, d["ROW_COUNT"]...)
	for i, x := range gotR {
		gotR[i] = dropField(x, 0)
	}
	sort.Strings(gotR)
	if !eng.EqualStrings(gotR, wantR) {
		return "ROW_COUNT", strings.Join(gotR, " "), strings.Join(wantR, " ")
	}
	return "", "", ""
}

// foldRows lower-cases the leading word of each "('word',…)" row under a _ci collation (the
// engine may store either case variant as the representative).
func foldRows(in []string, ci bool) []string {
	out := append([]string{}, in...)
	if ci {
		for i, x := range out {
			if j := strings.Index(x[2:], "'"); j >= 0 {
				out[i] = x[:2] + strings.ToLower(x[2:2+j]) + x[2+j:]
			}
		}
	}
	sort.Strings(out)
	return out
}

// dropField removes the i-th comma separated field of "(a,b,c)" (fields contain no commas here:
// words are word characters, hashes are hex).
func dropField(rowStr string, i int) string {
	inner := strings.TrimSuffix(strings.TrimPrefix(rowStr, "("), ")")
	f := strings.Split(inner, ",")
	if i < len(f) {
		f = append(f[:i:i], f[i+1:]...)
	}
	return "(" + strings.Join(f, ",") + ")"
}

// ------------------------------------------------------------------------------------------
// Step
// ------------------------------------------------------------------------------------------

type syncWitness struct {
	Part  string   `json:"part"` // "sync"
	Shape string   `json:"shape"`
	Ops   []int    `json:"ops"`
	SQL   []string `json:"sql"`
}

type syncStepper struct {
	r  *core.Run
	sh *shape
	// states (table + shadow tables) whose searches / reference counts / twin were checked
	checked map[string]bool
	probe   bool // running on a scratch Run for generalise
}

func (st *syncStepper) wit(h []int) syncWitness {
	w := syncWitness{Part: "sync", Shape: st.sh.Name, Ops: append([]int{}, h...)}
	w.SQL = append(w.SQL, st.sh.baseDDL())
	for _, ix := range st.sh.Indexes {
		w.SQL = append(w.SQL, ix.addSQL())
	}
	for _, o := range h {
		w.SQL = append(w.SQL, syncOps[o].SQL(st.sh))
	}
	return w
}

func (st *syncStepper) subject(o op) map[string]string {
	return map[string]string{"shape": st.sh.Name, "statement": o.Kind}
}

// generalise: a violation found on a non-base shape is re-tried with the same history on the base
// shape (pk-bin-d); if the same clause/kind/statement/table fails there too, the base shape's
// violation is reported instead (one root cause => one signature, smallest configuration).
func (st *syncStepper) generalise(h []int, v core.Violation) (core.Violation, bool) {
	base := &shapes[0]
	if st.probe {
		return v, false
	}
	class := strings.Join([]string{v.Check, v.Clause, v.Kind, v.Subject["statement"], v.Subject["table"], v.Subject["route"]}, "|")
	if st.sh.Name == base.Name {
		if _, ok := baseSeen[class]; !ok {
			baseSeen[class] = v
		}
		return v, false
	}
	scratch := core.NewRun(st.r.Prop, st.r.Tier, 0, 0, 1, time.Hour)
	p := &syncStepper{r: scratch, sh: base, checked: map[string]bool{}, probe: true}
	// the history must be clean on the base shape up to its last statement
	for k := 1; k < len(h); k++ {
		if key, _ := p.Step(h[:k]); key == hist.Disabled || len(scratch.Result().Violations) > 0 {
			break
		}
	}
	if len(scratch.Result().Violations) == 0 {
		p.Step(h)
		for _, pv := range scratch.Result().Violations {
			if pv.Check == v.Check && pv.Clause == v.Clause && pv.Kind == v.Kind && pv.Subject["statement"] == v.Subject["statement"] && pv.Subject["table"] == v.Subject["table"] && pv.Subject["route"] == v.Subject["route"] {
				g := *pv
				g.Count = 0
				if _, ok := baseSeen[class]; !ok {
					baseSeen[class] = g
				}
				return g, true
			}
		}
	}
	// the same class of failure was already reported on the base shape by this worker: count this
	// case there (with the base shape's witness) instead of opening a per-shape signature
	if g, ok := baseSeen[class]; ok {
		g.Count = 0
		return g, true
	}
	return v, false
}

// baseSeen: per worker, the first violation of each class reported on the base shape.
var baseSeen = map[string]core.Violation{}

func (st *syncStepper) Step(h []int) (string, bool) {
	r, sh := st.r, st.sh
	e := eng.New()
	s := e.NewSession("root")
	sh.setup(s)
	var rows []row
	// replay the prefix (already checked when it was last)
	for _, oi := range h[:len(h)-1] {
		o := syncOps[oi]
		next, errc := o.Apply(sh, rows)
		res := s.Exec(o.SQL(sh))
		if (errc == "") != (res.Err == nil) {
			// the prefix misbehaved: it was reported (and not expanded) when it was last
			return hist.Disabled, false
		}
		rows = next
	}
	o := syncOps[h[len(h)-1]]
	pre := rows
	next, errc := o.Apply(sh, rows)
	res := s.Exec(o.SQL(sh))
	w := st.wit(h)
	sub := st.subject(o)
	bad := func(v core.Violation) (string, bool) {
		v.Check = "sync"
		v.Witness = core.J(w)
		if v.Subject == nil {
			v.Subject = sub
		}
		v, _ = st.generalise(h, v)
		r.Violate(v)
		r.Count("pruned_after_violation", 1)
		return sh.Name + ":violation:" + fmt.Sprint(h), false
	}
	// (a) statement outcome
	if res.Panic != nil {
		sub["frame"] = topFrame(res.Stack)
		return bad(core.Violation{Clause: "no-panic", Kind: "panic", Observed: fmt.Sprint(res.Panic)})
	}
	if got := eng.ErrClass(res.Err); (errc == "" && res.Err != nil) || (errc != "" && got != errc) {
		exp := "ok"
		if errc != "" {
			exp = "error class " + errc
		}
		return bad(core.Violation{Clause: "statement-outcome", Kind: "unexpected-" + got, Observed: res.Summary(), Expected: exp})
	}
	rows = next
	// (b) table content
	tbl := s.Exec("select id,n,d,e from t")
	if tbl.Err != nil {
		return bad(core.Violation{Clause: "table-equals-model", Kind: "error", Observed: tbl.Summary()})
	}
	var wantT []string
	for _, rw := range rows {
		wantT = append(wantT, fmt.Sprintf("(%d,%d,%s,%s)", rw.ID, rw.N, fmtCell(rw.D), fmtCell(rw.E)))
	}
	sort.Strings(wantT)
	if gotT := tbl.Multiset(); !eng.EqualStrings(gotT, wantT) {
		return bad(core.Violation{Clause: "table-equals-model", Kind: "rows-differ", Observed: strings.Join(gotT, " "), Expected: strings.Join(wantT, " ")})
	}
	// shadow tables of the table under test; table + shadow tables are the state
	before, err := shadowDump(s, sh)
	if err != nil {
		return bad(core.Violation{Clause: "shadow-tables-readable", Kind: "error", Observed: err.Error()})
	}
	changed := rowsKey(pre) != rowsKey(rows)
	cls := "unchanged"
	switch {
	case errc != "":
		cls = "err-" + errc
	case changed:
		cls = "changed"
	}
	stateKey := sh.Name + "\n" + rowsKey(rows) + "\n" + dumpKey(before, sh)
	if st.checked[stateKey] {
		// searches, reference counts and the twin are functions of this state and were checked
		// when the state was first reached by this worker
		r.Count("sync_state_checks_reused", 1)
		r.Outcome("sync:" + o.Kind + ":" + cls)
		if changed && (len(pre) > 0 || len(rows) > 0) {
			r.NonTrivial("sync|" + sh.Name + fmt.Sprint(h))
		}
		return stateKey, true
	}
	// (c) searches before the rebuild
	type failed struct {
		ix     ftIndex
		route  string
		search string
		m      mismatch
	}
	var fails []failed
	nq := 0
	for _, ix := range sh.Indexes {
		for _, set := range allSearches() {
			search := searchString(set, " ")
			for _, route := range routes[:2] {
				nq++
				for _, m := range judge(s, sh, ix, route, search, rows) {
					if m.Kind == "unsupported" {
						continue
					}
					fails = append(fails, failed{ix, route, search, m})
				}
			}
		}
	}
	r.Count("sync_search_checks", int64(nq))
	// (d) reference counts, then the twin
	for _, ix := range sh.Indexes {
		if t, obs, exp := refShadowProblem(s, sh, ix, rows, before[ix.Name]); t != "" {
			sub["table"] = t
			return bad(core.Violation{Clause: "count-tables-equal-reference", Kind: "counts-differ", Observed: t + ": " + obs, Expected: exp})
		}
	}
	// twin: a fresh table (fresh engine) holding the same rows (in this table's scan order) on
	// which the FULLTEXT indexes are created afterwards (bulk build). If the bulk build itself
	// contradicts the reference counts that is a defect of index creation (check "build",
	// reported, does not stop the exploration) and the twin is rebuilt by declaring the indexes
	// first and loading the rows with one INSERT.
	var loadSQL string
	if len(tbl.Rows) > 0 {
		var vals []string
		for _, tr := range tbl.Rows {
			cells := make([]string, len(tr))
			for i, c := range tr {
				switch x := c.(type) {
				case nil:
					cells[i] = "NULL"
				case string:
					cells[i] = sqlStr(&x)
				default:
					cells[i] = fmt.Sprint(x)
				}
			}
			vals = append(vals, "("+strings.Join(cells, ",")+")")
		}
		loadSQL = "insert into t values " + strings.Join(vals, ",")
	}
	twin, after, problem := buildTwin(sh, loadSQL, rows, true)
	if problem != nil {
		problem.Witness = core.J(buildWitness{Part: "build", Shape: sh.Name, Load: loadSQL, Rows: rows})
		r.Violate(*problem)
		twin, after, problem = buildTwin(sh, loadSQL, rows, false)
		if problem != nil {
			problem.Witness = core.J(w)
			problem.Subject["statement"] = "insert"
			return bad(*problem)
		}
	}
	for _, ix := range sh.Indexes {
		for _, kind := range shadowKinds {
			// under a case-insensitive collation either case variant may be the stored representative
			b, a := before[ix.Name][kind], after[ix.Name][kind]
			if kind != "ROW_COUNT" {
				b, a = foldRows(b, sh.CI), foldRows(a, sh.CI)
			}
			if !eng.EqualStrings(b, a) {
				sub["table"] = kind
				return bad(core.Violation{Clause: "shadow-tables-equal-rebuild", Kind: "stale-index", Observed: kind + " after the history: " + strings.Join(b, " "), Expected: "in a twin table indexed after loading the same rows: " + strings.Join(a, " ")})
			}
		}
	}
	// classify search failures: still wrong on the rebuilt index -> a defect of the query side
	// (same signature as the match part; the state is still explored); right after the rebuild
	// -> the index was out of sync.
	expand := true
	for _, f := range fails {
		still := false
		for _, m2 := range judge(twin, sh, f.ix, f.route, f.search, rows) {
			if m2.Kind == f.m.Kind {
				still = true
			}
		}
		if still {
			reportMatch(r, sh, f.ix, f.route, f.search, f.m, rows, "")
			continue
		}
		expand = false
		sub2 := st.subject(o)
		sub2["route"] = f.route
		v := core.Violation{Check: "sync", Clause: "search-after-dml-equals-reference", Kind: normKind(f.m.Kind), Subject: sub2, Witness: core.J(w),
			Observed: fmt.Sprintf("row id %d: %s [%s]", f.m.ID, f.m.Observed, routeSQL(f.route, f.ix, f.search)), Expected: f.m.Expected + " (and the rebuilt index answers correctly)"}
		v, _ = st.generalise(h, v)
		r.Violate(v)
		break // one report per state
	}
	if !expand {
		r.Count("pruned_after_violation", 1)
		return sh.Name + ":violation:" + fmt.Sprint(h), false
	}
	// evidence
	st.checked[stateKey] = true
	r.Count("sync_states_fully_checked", 1)
	r.Outcome("sync:" + o.Kind + ":" + cls)
	if changed && (len(pre) > 0 || len(rows) > 0) {
		r.NonTrivial("sync|" + sh.Name + fmt.Sprint(h))
	}
	if len(h) >= 2 && changed && len(rows) > 0 && r.WantSample() {
		r.Sample(map[string]any{"part": "sync", "shape": sh.Name, "history": w.SQL, "rows_after": rowsKey(rows),
			"shadow_tables_after (equal to rebuilt index and reference counts)": before, "searches_checked": nq})
	}
	return stateKey, true
}

type buildWitness struct {
	Part  string `json:"part"` // "build"
	Shape string `json:"shape"`
	Load  string `json:"load"`
	Rows  []row  `json:"rows"`
}

// buildTwin creates the twin table; bulk = load first, then ALTER TABLE ADD FULLTEXT for every
// index; else the indexes are declared first and the rows loaded by one INSERT. The twin's count
// tables are checked against the reference counts.
func buildTwin(sh *shape, loadSQL string, rows []row, bulk bool) (*eng.Session, map[string]map[string][]string, *core.Violation) {
	twin := eng.New().NewSession("root")
	twin.MustExec(sh.baseDDL())
	if bulk && loadSQL != "" {
		twin.MustExec(loadSQL)
	}
	for _, ix := range sh.Indexes {
		twin.MustExec(ix.addSQL())
	}
	if !bulk && loadSQL != "" {
		twin.MustExec(loadSQL)
	}
	how := "alter-add-on-populated-table"
	if !bulk {
		how = "insert-into-indexed-table"
	}
	sub := map[string]string{"shape": sh.Name, "how": how}
	d, err := shadowDump(twin, sh)
	if err != nil {
		return twin, d, &core.Violation{Check: "build", Clause: "shadow-tables-readable", Kind: "error", Subject: sub, Observed: err.Error()}
	}
	for _, ix := range sh.Indexes {
		if t, obs, exp := refShadowProblem(twin, sh, ix, rows, d[ix.Name]); t != "" {
			sub["table"] = t
			sub["index"] = ix.Name
			return twin, d, &core.Violation{Check: "build", Clause: "count-tables-equal-reference", Kind: "counts-differ", Subject: sub, Observed: t + " of " + ix.Name + ": " + obs, Expected: exp}
		}
	}
	return twin, d, nil
}

func replayBuild(r *core.Run, w buildWitness) {
	sh := shapeByName(w.Shape)
	if sh == nil {
		return
	}
	if _, _, p := buildTwin(sh, w.Load, w.Rows, true); p != nil {
		p.Witness = core.J(w)
		r.Violate(*p)
	}
}

func fmtCell(p *string) string {
	if p == nil {
		return "NULL"
	}
	return "'" + *p + "'"
}

func runSyncPart(r *core.Run) {
	depth, unmerged := 3, 2
	if r.Thorough() {
		depth, unmerged = 4, 2
	}
	r.Info("sync_depth", depth)
	r.Info("sync_unmerged_depth", unmerged)
	r.Info("sync_alphabet", len(syncOps))
	if r.Mine(0) {
		checkDDL(r, ddlWitness{Drop: "idx"})
		checkDDL(r, ddlWitness{Drop: "idy"})
	}
	for si := range shapes {
		sh := &shapes[si]
		if only := os.Getenv("VERIF_C51_SHAPES"); only != "" && !strings.Contains(","+only+",", ","+sh.Name+",") {
			r.Capped("development filter VERIF_C51_SHAPES=" + only)
			continue
		}
		if r.Expired() {
			r.Capped("time budget reached before sync shape " + sh.Name)
			return
		}
		depth := depth
		if r.Quick() && si >= 4 {
			depth = 2 // quick: the last three shapes only to depth 2
		}
		r.Info("sync_depth_"+sh.Name, depth)
		st := &syncStepper{r: r, sh: sh, checked: map[string]bool{}}
		hist.Explore(r, hist.Config{NOps: len(syncOps), MaxDepth: depth, UnmergedDepth: unmerged, Step: st.Step,
			Label: func(i int) string { return syncOps[i].SQL(sh) }})
	}
}

func replaySync(r *core.Run, w syncWitness) {
	sh := shapeByName(w.Shape)
	if sh == nil || len(w.Ops) == 0 {
		return
	}
	for _, o := range w.Ops {
		if o < 0 || o >= len(syncOps) {
			return
		}
	}
	st := &syncStepper{r: r, sh: sh, checked: map[string]bool{}}
	st.Step(w.Ops)
}

// ------------------------------------------------------------------------------------------
// DDL scenarios: dropping one of two FULLTEXT indexes must leave the other one usable
// ------------------------------------------------------------------------------------------

type ddlWitness struct {
	Part string   `json:"part"` // "ddl"
	Drop string   `json:"drop"`
	SQL  []string `json:"sql"`
}

func checkDDL(r *core.Run, w ddlWitness) {
	sh := shapeByName("pk-bin-d+e")
	var other ftIndex
	pos := "second-created"
	for i, ix := range sh.Indexes {
		if ix.Name != w.Drop {
			other = ix
		} else if i == 0 {
			pos = "first-created"
		}
	}
	if other.Name == "" || other.Name == w.Drop {
		return
	}
	r.Eval()
	rows := []row{{1, 0, sp("cat dog"), sp("the cat")}}
	second := row{2, 0, sp("dog"), sp("Cat,the")}
	w.Part = "ddl"
	w.SQL = []string{sh.baseDDL(), sh.Indexes[0].addSQL(), sh.Indexes[1].addSQL(), "insert into t values " + rows[0].values(),
		"alter table t drop index " + w.Drop, "insert into t values " + second.values()}
	s := eng.New().NewSession("root")
	for _, q := range w.SQL[:4] {
		s.MustExec(q)
	}
	sub := map[string]string{"dropped": pos}
	fail := func(clause, kind, obs, exp string) {
		r.Violate(core.Violation{Check: "ddl", Clause: clause, Kind: kind, Subject: sub, Witness: core.J(w), Observed: obs, Expected: exp})
	}
	// query-side mismatches that exist before the DROP are not attributed to it
	baseline := map[string]bool{}
	for _, set := range allSearches() {
		for _, route := range routes[:2] {
			for _, m := range judge(s, sh, other, route, searchString(set, " "), rows) {
				baseline[route+"|"+m.Kind] = true
			}
		}
	}
	if res := s.Exec(w.SQL[4]); res.Err != nil {
		fail("drop-index-succeeds", eng.ErrClass(res.Err), res.Summary(), "ok")
		return
	}
	check := func(stage string) bool {
		for _, set := range allSearches() {
			search := searchString(set, " ")
			for _, route := range routes[:2] {
				for _, m := range judge(s, sh, other, route, search, rows) {
					if m.Kind == "unsupported" || baseline[route+"|"+m.Kind] {
						continue
					}
					if m.Kind == "panic" {
						sub["frame"] = topFrame(m.Stack)
					}
					fail("other-index-usable-after-drop", m.Kind, fmt.Sprintf("%s: row id %d: %s [%s]", stage, m.ID, m.Observed, routeSQL(route, other, search)), m.Expected)
					return false
				}
			}
		}
		d, err := shadowDump(s, &shape{Indexes: []ftIndex{other}})
		if err != nil {
			fail("other-index-usable-after-drop", "shadow-tables-unreadable", stage+": "+err.Error(), "")
			return false
		}
		if t, obs, exp := refShadowProblem(s, sh, other, rows, d[other.Name]); t != "" {
			fail("other-index-usable-after-drop", "counts-differ", stage+": "+t+": "+obs, exp)
			return false
		}
		return true
	}
	if !check("after DROP INDEX") {
		return
	}
	res := s.Exec(w.SQL[5])
	if res.Panic != nil {
		sub["frame"] = topFrame(res.Stack)
		fail("other-index-usable-after-drop", "panic", "INSERT after DROP INDEX: "+fmt.Sprint(res.Panic), "ok")
		return
	}
	if res.Err != nil {
		fail("other-index-usable-after-drop", "error", "INSERT after DROP INDEX: "+res.Err.Error(), "ok")
		return
	}
	rows = append(rows, second)
	if check("after DROP INDEX + INSERT") {
		r.Outcome("ddl:drop-" + pos + ":other-index-usable")
		r.NonTrivial("ddl|" + w.Drop)
	}
}
