package c52

import "math"

var negZero = math.Copysign(0, -1)

// coordinate alphabet of DESIGN.md: {0, 1, -1, 0.5, 1e308, -0.0}
var coordsAll = []float64{0, 1, -1, 0.5, 1e308, negZero}

func pointsOver(cs []float64) []G {
	var out []G
	for _, x := range cs {
		for _, y := range cs {
			out = append(out, pt(x, y))
		}
	}
	return out
}

func ring(cs ...float64) G {
	r := G{T: tLine}
	for i := 0; i+1 < len(cs); i += 2 {
		r.Sub = append(r.Sub, pt(cs[i], cs[i+1]))
	}
	return r
}

// polygons: the list of ring shapes (triangle, square, square with hole, degenerate ones).
func polygons() []G {
	tri := ring(0, 0, 1, 0, 0, 1, 0, 0)
	triCW := ring(0, 0, 0, 1, 1, 0, 0, 0)
	sq := ring(0, 0, 1, 0, 1, 1, 0, 1, 0, 0)
	big := ring(-1, -1, 1, -1, 1, 1, -1, 1, -1, -1)
	hole := ring(0, 0, 0.5, 0, 0, 0.5, 0, 0)
	hole2 := ring(-1, -1, -1, 0, 0, -1, -1, -1) // "hole" touching the shell (invalid but representable)
	samePoint := ring(0, 0, 0, 0, 0, 0, 0, 0)
	collinear := ring(0, 0, 1, 0, 0.5, 0, 0, 0)
	spike := ring(0, 0, 1, 1, 0, 0, 0, 0)
	huge := ring(0, 0, 1e308, 0, 0, 1e308, 0, 0)
	nz := ring(negZero, 0, 1, negZero, 0, 1, negZero, 0)
	return []G{
		mk(tPoly, tri), mk(tPoly, triCW), mk(tPoly, sq), mk(tPoly, big), mk(tPoly, big, hole), mk(tPoly, big, hole, hole2),
		mk(tPoly, samePoint), mk(tPoly, collinear), mk(tPoly, spike), mk(tPoly, huge), mk(tPoly, nz),
	}
}

type alphabet struct {
	points, lines, polys, mpoints, mlines, mpolys, colls []G
}

func (a alphabet) all() []G {
	var out []G
	for _, l := range [][]G{a.points, a.lines, a.polys, a.mpoints, a.mlines, a.mpolys, a.colls} {
		out = append(out, l...)
	}
	return out
}

// buildAlphabet enumerates the geometry alphabet. Quick: every point over the 6 coordinates (36);
// every 2-point linestring over those 36 points (1296); every 3-point linestring over the 9 points
// with coordinates {0, 1, 0.5} (729); 11 polygons; multipoints / multilinestrings / multipolygons of
// 1..2 members from short member lists; every geometry collection of 0..2 members from a member
// list of 11 (all seven types, including an empty and a non-empty nested collection). Thorough: the
// 3-point linestrings range over all 36 points (46656) and collections of 3 members over a
// 6-element member list are added.
func buildAlphabet(thorough bool) alphabet {
	var a alphabet
	a.points = pointsOver(coordsAll)
	for _, p := range a.points {
		for _, q := range a.points {
			a.lines = append(a.lines, mk(tLine, p, q))
		}
	}
	third := pointsOver([]float64{0, 1, 0.5})
	if thorough {
		third = a.points
	}
	for _, p := range third {
		for _, q := range third {
			for _, r := range third {
				a.lines = append(a.lines, mk(tLine, p, q, r))
			}
		}
	}
	a.polys = polygons()

	ps := []G{pt(0, 0), pt(1, -1), pt(0.5, 1e308), pt(negZero, 0), pt(1, 1)}
	ls := []G{mk(tLine, pt(0, 0), pt(1, 1)), mk(tLine, pt(-1, 0.5), pt(negZero, 1), pt(1e308, 0)), mk(tLine, pt(1, 1), pt(1, 1))}
	pls := []G{a.polys[0], a.polys[4], a.polys[6]}
	multi := func(t int, members []G) []G {
		var out []G
		for _, m := range members {
			out = append(out, mk(t, m))
		}
		for _, m := range members {
			for _, n := range members {
				out = append(out, mk(t, m, n))
			}
		}
		return out
	}
	a.mpoints = multi(tMPoint, ps)
	a.mlines = multi(tMLine, ls)
	a.mpolys = multi(tMPoly, pls)

	members := []G{
		ps[0], ps[2], ps[3], ls[0], pls[0], pls[1],
		a.mpoints[1], a.mlines[0], a.mpolys[0],
		mk(tColl), mk(tColl, ps[1]),
	}
	a.colls = append(a.colls, mk(tColl))
	for _, m := range members {
		a.colls = append(a.colls, mk(tColl, m))
	}
	for _, m := range members {
		for _, n := range members {
			a.colls = append(a.colls, mk(tColl, m, n))
		}
	}
	// one doubly nested value
	a.colls = append(a.colls, mk(tColl, mk(tColl, mk(tColl), ps[0]), mk(tColl, mk(tColl, ls[0]))))
	if thorough {
		small := []G{ps[0], ls[0], pls[0], a.mpoints[1], mk(tColl), mk(tColl, ps[1])}
		for _, m := range small {
			for _, n := range small {
				for _, o := range small {
					a.colls = append(a.colls, mk(tColl, m, n, o))
				}
			}
		}
	}
	return a
}

// indexRows is the (smaller) set of row geometries per table class for the SPATIAL-index twin
// tables, and indexQueries the query geometries.
func indexRows(a alphabet) map[string][]G {
	var lines []G
	nine := pointsOver([]float64{0, 1, -1})
	for _, p := range nine {
		for _, q := range nine {
			lines = append(lines, mk(tLine, p, q))
		}
	}
	lines = append(lines, mk(tLine, pt(0, 0), pt(1e308, 1e308)), mk(tLine, pt(negZero, negZero), pt(0.5, 0.5), pt(1, 0)))
	rows := map[string][]G{
		"point":              a.points,
		"linestring":         lines,
		"polygon":            a.polys,
		"multipoint":         a.mpoints,
		"multilinestring":    a.mlines,
		"multipolygon":       a.mpolys,
		"geometrycollection": a.colls[:40],
	}
	var mixed []G
	for _, k := range classOrder[:7] {
		l := rows[k]
		for i := 0; i < len(l) && i < 6; i++ {
			mixed = append(mixed, l[i*len(l)/6%len(l)])
		}
	}
	rows["mixed"] = mixed
	return rows
}

var classOrder = []string{"point", "linestring", "polygon", "multipoint", "multilinestring", "multipolygon", "geometrycollection", "mixed"}

func indexQueries(a alphabet, thorough bool) []G {
	var q []G
	q = append(q, a.points...)
	step := func(l []G, n int) []G {
		if thorough || len(l) <= n {
			return l
		}
		var out []G
		for i := 0; i < n; i++ {
			out = append(out, l[i*len(l)/n])
		}
		return out
	}
	var lines []G
	nine := pointsOver([]float64{0, 1, -1})
	for _, p := range nine {
		for _, r := range nine {
			lines = append(lines, mk(tLine, p, r))
		}
	}
	q = append(q, step(lines, 27)...)
	q = append(q, mk(tLine, pt(0, 0), pt(1e308, 1e308)), mk(tLine, pt(-1, 1), pt(0.5, 0.5), pt(1, -1)))
	q = append(q, a.polys...)
	q = append(q, step(a.mpoints, 10)...)
	q = append(q, step(a.mlines, 6)...)
	q = append(q, step(a.mpolys, 6)...)
	q = append(q, step(a.colls[:40], 14)...)
	return q
}
