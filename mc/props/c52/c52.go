// Package c52 decides property C52: geometry values round-trip through their text (WKT) and
// binary (WKB) forms, and spatial predicates return the same rows with and without a SPATIAL index.
//
// Everything is driven through SQL on fresh engines. Geometry values are built with the SQL
// constructor functions (POINT, LINESTRING, ..., GEOMETRYCOLLECTION, ST_SRID) from the harness's own
// model, and every expected value is computed from that model with an independently written WKB
// encoder (model.go) - the engine's codecs are never used to produce expectations.
package c52

import (
	"bytes"
	"encoding/hex"
	"encoding/json"
	"fmt"
	"sort"
	"strconv"
	"strings"
	"sync"

	"github.com/dolthub/go-mysql-server/sql"
	"github.com/dolthub/go-mysql-server/sql/types"

	"verif/mc/core"
	"verif/mc/eng"
)

var srids = []uint32{0, 4326, 3857}

// ---------------------------------------------------------------------------------------------
// helpers

func isUnsupported(err error) bool {
	if err == nil {
		return false
	}
	return sql.ErrUnsupportedGISTypeForSpatialFunc.Is(err) || sql.ErrUnsupportedFeature.Is(err) || sql.ErrUnsupportedSyntax.Is(err) ||
		sql.ErrFunctionNotFound.Is(err) || sql.ErrUnsupportedSRID.Is(err) || sql.ErrUnsupportedGISType.Is(err)
}

func errClass(err error) string {
	switch {
	case err == nil:
		return "ok"
	case isUnsupported(err):
		return "unsupported"
	case sql.ErrInvalidGISData.Is(err):
		return "invalid-gis-data"
	case sql.ErrDiffSRIDs.Is(err):
		return "different-srids"
	case sql.ErrNoSRID.Is(err), sql.ErrInvalidSRID.Is(err):
		return "bad-srid"
	}
	return eng.ErrClass(err)
}

var (
	equalsOnce sync.Once
	equalsName string // the name under which the engine registers ST_Equals ("" = none)
)

// stEquals finds the engine's name for ST_Equals (the pinned tree registers it as "st_equal").
func stEquals() string {
	equalsOnce.Do(func() {
		s := eng.New().NewSession("root")
		for _, n := range []string{"st_equals", "st_equal"} {
			if r := s.Exec("select " + n + "(point(0,0), point(0,0))"); r.Err == nil {
				equalsName = n
				return
			}
		}
	})
	return equalsName
}

// ---------------------------------------------------------------------------------------------
// check 1: round trips

type rtCase struct {
	G    G      `json:"g"`
	SRID uint32 `json:"srid"`
}

// spec is one expression over the column g with its expected value.
type spec struct {
	name   string // signature coordinate: the expression with the srid/option abstracted
	clause string
	sql    string
	want   []byte // expected bytes: internal form for geometry results, raw bytes for WKB output
	isBool bool   // expected SQL true
	free   bool   // no expectation (value recorded only)
	fn     string // signature coordinate: the decoding/encoding function under test
	dep    string // name of the base expression this one builds on ("" = none)
	group  int    // expressions of one group are evaluated in one statement
}

var typedText = map[int][]string{
	tPoint:  {"st_pointfromtext"},
	tLine:   {"st_linefromtext", "st_linestringfromtext"},
	tPoly:   {"st_polyfromtext", "st_polygonfromtext"},
	tMPoint: {"st_mpointfromtext", "st_multipointfromtext"},
	tMLine:  {"st_mlinefromtext", "st_multilinestringfromtext"},
	tMPoly:  {"st_mpolyfromtext", "st_multipolygonfromtext"},
	tColl:   {"st_geomcollfromtext", "st_geomcollfromtxt", "st_geometrycollectionfromtext"},
}

var typedWKB = map[int][]string{
	tPoint:  {"st_pointfromwkb"},
	tLine:   {"st_linefromwkb", "st_linestringfromwkb"},
	tPoly:   {"st_polyfromwkb", "st_polygonfromwkb"},
	tMPoint: {"st_mpointfromwkb", "st_multipointfromwkb"},
	tMLine:  {"st_mlinefromwkb", "st_multilinestringfromwkb"},
	tMPoly:  {"st_mpolyfromwkb", "st_multipolygonfromwkb"},
	tColl:   {"st_geomcollfromwkb", "st_geometrycollectionfromwkb"},
}

var axisOptions = []string{"axis-order=srid-defined", "axis-order=lat-long", "axis-order=long-lat"}

const (
	baseText = "st_geomfromtext(st_astext(g),srid)"
	baseWKB  = "st_geomfromwkb(st_aswkb(g),srid)"
	astext   = "st_astext(g)"
	aswkb    = "st_aswkb(g)"
)

func rtSpecs(c rtCase) []spec {
	g, srid := c.G, c.SRID
	self := refInternal(g, srid)
	swapped := self
	wire := g // coordinate order on the wire (WKB/WKT): latitude first for the geographic SRS
	if srid == 4326 {
		swapped = refInternal(g.swap(), srid)
		wire = g.swap()
	}
	wkbLE := refWKB(wire, boLittle)
	sr := strconv.Itoa(int(srid))
	var out []spec
	add := func(name, clause, fn, dep, q string, want []byte) {
		out = append(out, spec{name: name, clause: clause, fn: fn, dep: dep, sql: q, want: want})
	}
	add("g", "constructor-yields-model-value", "constructor", "", "g", self)
	out = append(out, spec{name: astext, clause: "astext-succeeds", fn: "st_astext", sql: "st_astext(g)", free: true})
	add(aswkb, "aswkb-is-reference-wkb", "st_aswkb", "", "st_aswkb(g)", wkbLE)
	add("st_asbinary(g)", "aswkb-is-reference-wkb", "st_asbinary", "", "st_asbinary(g)", wkbLE)

	add(baseText, "text-roundtrip", "st_geomfromtext", astext, "st_geomfromtext(st_astext(g),"+sr+")", self)
	add("st_geometryfromtext(st_aswkt(g),srid)", "text-roundtrip", "st_geometryfromtext", astext, "st_geometryfromtext(st_aswkt(g),"+sr+")", self)
	add(baseWKB, "wkb-roundtrip", "st_geomfromwkb", "", "st_geomfromwkb(st_aswkb(g),"+sr+")", self)
	add("st_geometryfromwkb(st_asbinary(g),srid)", "wkb-roundtrip", "st_geometryfromwkb", "", "st_geometryfromwkb(st_asbinary(g),"+sr+")", self)
	if srid == 0 {
		add("st_geomfromtext(st_astext(g))", "text-roundtrip-default-srid", "st_geomfromtext", baseText, "st_geomfromtext(st_astext(g))", self)
		add("st_geomfromwkb(st_aswkb(g))", "wkb-roundtrip-default-srid", "st_geomfromwkb", baseWKB, "st_geomfromwkb(st_aswkb(g))", self)
	}
	add("st_aswkb(st_geomfromtext(st_astext(g),srid))", "text-roundtrip-byte-equal-aswkb", "st_geomfromtext", baseText, "st_aswkb(st_geomfromtext(st_astext(g),"+sr+"))", wkbLE)
	add("st_aswkb(st_geomfromwkb(st_aswkb(g),srid))", "wkb-roundtrip-byte-equal-aswkb", "st_geomfromwkb", baseWKB, "st_aswkb(st_geomfromwkb(st_aswkb(g),"+sr+"))", wkbLE)
	for _, o := range axisOptions {
		want := self
		if o == "axis-order=long-lat" {
			want = swapped
		}
		add("st_geomfromtext(st_astext(g),srid,'"+o+"')", "text-roundtrip-axis-order", "st_geomfromtext", baseText, "st_geomfromtext(st_astext(g),"+sr+",'"+o+"')", want)
		add("st_geomfromwkb(st_aswkb(g),srid,'"+o+"')", "wkb-roundtrip-axis-order", "st_geomfromwkb", baseWKB, "st_geomfromwkb(st_aswkb(g),"+sr+",'"+o+"')", want)
	}
	if eq := stEquals(); eq != "" {
		out = append(out,
			spec{group: 1, name: "st_equals(g,st_geomfromtext(st_astext(g),srid))", clause: "text-roundtrip-st-equals", fn: "st_equals", dep: baseText, sql: eq + "(g,st_geomfromtext(st_astext(g)," + sr + "))", isBool: true},
			spec{group: 1, name: "st_equals(g,st_geomfromwkb(st_aswkb(g),srid))", clause: "wkb-roundtrip-st-equals", fn: "st_equals", dep: baseWKB, sql: eq + "(g,st_geomfromwkb(st_aswkb(g)," + sr + "))", isBool: true})
	}
	mark := len(out)
	for _, f := range typedText[g.T] {
		add(f+"(st_astext(g),srid)", "typed-text-roundtrip", f, baseText, f+"(st_astext(g),"+sr+")", self)
	}
	for _, f := range typedWKB[g.T] {
		add(f+"(st_aswkb(g),srid)", "typed-wkb-roundtrip", f, "", f+"(st_aswkb(g),"+sr+")", self)
	}
	for i := mark; i < len(out); i++ {
		out[i].group = 2
	}
	mark = len(out)
	defer func() {
		for i := mark; i < len(out); i++ {
			out[i].group = 3
		}
	}()
	// reference WKB in the three byte-order policies, as literals
	for _, bo := range []struct {
		name   string
		policy int
	}{{"little-endian", boLittle}, {"big-endian", boBig}, {"mixed-endian", boMixed}} {
		lit := "x'" + hex.EncodeToString(refWKB(wire, bo.policy)) + "'"
		base := "st_geomfromwkb(<" + bo.name + " wkb>,srid)"
		add(base, "wkb-byte-order-"+bo.name, "st_geomfromwkb", "", "st_geomfromwkb("+lit+","+sr+")", self)
		if bo.policy != boLittle {
			add("st_geomfromwkb(<"+bo.name+" wkb>,srid,'axis-order=long-lat')", "wkb-byte-order-"+bo.name+"-axis-order", "st_geomfromwkb", base, "st_geomfromwkb("+lit+","+sr+",'axis-order=long-lat')", swapped)
			f := typedWKB[g.T][0]
			add(f+"(<"+bo.name+" wkb>,srid)", "typed-wkb-byte-order-"+bo.name, f, f+"(st_aswkb(g),srid)", f+"("+lit+","+sr+")", self)
		}
	}
	return out
}

type exprResult struct {
	val   any
	err   error
	panic any
	stack string
}

// evalSpecs evaluates the expressions in one statement; when a statement fails its expression list
// is split in halves (recursively) until the failing expressions are isolated.
func evalSpecs(s *eng.Session, gexpr string, specs []spec) []exprResult {
	// the value lives in a one-row table: a derived table over the dual table makes the analyzer
	// allocate a session per plan node (plan.IsDualTable), which is 10x slower
	s.MustExec("create table one (id int primary key, g geometry)")
	if r := s.Exec("insert into one values (1, " + gexpr + ")"); r.Err != nil || r.Panic != nil {
		out := make([]exprResult, len(specs))
		for i := range out {
			out[i] = exprResult{err: r.Err, panic: r.Panic, stack: r.Stack}
		}
		return out
	}
	from := " from one"
	out := make([]exprResult, len(specs))
	var run func(lo, hi int)
	run = func(lo, hi int) {
		cols := make([]string, 0, hi-lo)
		for _, sp := range specs[lo:hi] {
			cols = append(cols, sp.sql)
		}
		r := s.Exec("select " + strings.Join(cols, ", ") + from)
		if r.Err == nil && r.Panic == nil && len(r.Rows) == 1 && len(r.Rows[0]) == hi-lo {
			for i := lo; i < hi; i++ {
				out[i].val = r.Rows[0][i-lo]
			}
			return
		}
		if hi-lo == 1 {
			switch {
			case r.Panic != nil:
				out[lo].panic, out[lo].stack, out[lo].err = r.Panic, r.Stack, r.Err
			case r.Err != nil:
				out[lo].err = r.Err
			default:
				out[lo].err = fmt.Errorf("harness: %d rows", len(r.Rows))
			}
			return
		}
		mid := (lo + hi) / 2
		run(lo, mid)
		run(mid, hi)
	}
	// statements per clause family, so that a family the engine does not support for this type
	// (ST_Equals on non-points, ...) does not drag the others into the splitting
	start := 0
	for i := 1; i <= len(specs); i++ {
		if i == len(specs) || specs[i].group != specs[start].group {
			run(start, i)
			start = i
		}
	}
	return out
}

func valueBytes(ctx *sql.Context, v any) ([]byte, string) {
	switch x := v.(type) {
	case nil:
		return nil, "NULL"
	case types.GeometryValue:
		b := x.Serialize()
		return b, "geometry 0x" + hex.EncodeToString(b)
	case []byte:
		return x, "bytes 0x" + hex.EncodeToString(x)
	case string:
		return []byte(x), "string " + strconv.Quote(x)
	}
	if u, err := sql.UnwrapAny(ctx, v); err == nil && u != v {
		return valueBytes(ctx, u)
	}
	return nil, fmt.Sprintf("%T %v", v, v)
}

// status of one expression of one case
type status struct {
	class    string // ok | unsupported | dependent | panic | error | null-result | wrong-value | not-equal
	observed string
	expected string
	frame    string
}

func (st status) failed() bool {
	switch st.class {
	case "ok", "unsupported", "dependent":
		return false
	}
	return true
}

// rtEval evaluates every expression of the case on a fresh engine and judges it against the model.
// An expression whose base round trip (dep) already failed is not judged ("dependent").
func rtEval(c rtCase) ([]spec, []status, string) {
	s := eng.New().NewSession("root")
	specs := rtSpecs(c)
	res := evalSpecs(s, c.G.sqlExprSRID(c.SRID), specs)
	out := make([]status, len(specs))
	byName := map[string]int{}
	for i, sp := range specs {
		byName[sp.name] = i
	}
	empty := c.G.isEmpty()
	for i, sp := range specs {
		rs := res[i]
		if j, ok := byName[sp.dep]; ok && sp.dep != "" && j < i && out[j].failed() {
			out[i] = status{class: "dependent"}
			continue
		}
		switch {
		case rs.panic != nil:
			out[i] = status{class: "panic", observed: fmt.Sprint(rs.panic), frame: core.TopFrame(rs.stack)}
		case rs.err != nil && isUnsupported(rs.err):
			out[i] = status{class: "unsupported"}
		case rs.err != nil:
			out[i] = status{class: "error", observed: "ERR[" + errClass(rs.err) + "] " + rs.err.Error() + " <- " + sp.sql, expected: "a value"}
		case sp.free:
			out[i] = status{class: "ok"}
			if rs.val == nil {
				out[i] = status{class: "null-result", observed: "NULL <- " + sp.sql, expected: "a value"}
			}
		case sp.isBool:
			ok := rs.val == true || fmt.Sprint(rs.val) == "1" || fmt.Sprint(rs.val) == "true"
			if empty && rs.val == nil {
				ok = true // MySQL: spatial relation functions return NULL for an empty geometry argument
			}
			out[i] = status{class: "ok"}
			if !ok {
				out[i] = status{class: "not-equal", observed: fmt.Sprintf("%v <- %s", rs.val, sp.sql), expected: "true"}
			}
		default:
			got, shown := valueBytes(s.Ctx, rs.val)
			out[i] = status{class: "ok"}
			if rs.val == nil {
				out[i] = status{class: "null-result", observed: "NULL <- " + sp.sql, expected: "0x" + hex.EncodeToString(sp.want)}
			} else if !bytes.Equal(got, sp.want) {
				out[i] = status{class: "wrong-value", observed: shown + " <- " + sp.sql, expected: "0x" + hex.EncodeToString(sp.want)}
			}
		}
	}
	txt := ""
	if v, ok := res[1].val.(string); ok {
		txt = v
	}
	return specs, out, txt
}

// rtMemo caches, per case, which expressions failed and how (attribution probes).
var rtMemo = map[string]map[string]string{}

func rtFailures(c rtCase) map[string]string {
	k := string(core.J(c))
	if m, ok := rtMemo[k]; ok {
		return m
	}
	specs, sts, _ := rtEval(c)
	m := map[string]string{}
	for i, st := range sts {
		if st.failed() {
			m[specs[i].name] = st.class
		}
	}
	if len(rtMemo) > 20000 {
		rtMemo = map[string]map[string]string{}
	}
	rtMemo[k] = m
	return m
}

// canonical is the simplest value of a type (attribution probe for the shape coordinate).
func canonical(t int) G {
	tri := ring(0, 0, 1, 0, 0, 1, 0, 0)
	ln := mk(tLine, pt(0, 0), pt(1, 1))
	switch t {
	case tPoint:
		return pt(1, 0.5)
	case tLine:
		return ln
	case tPoly:
		return mk(tPoly, tri)
	case tMPoint:
		return mk(tMPoint, pt(1, 0.5))
	case tMLine:
		return mk(tMLine, ln)
	case tMPoly:
		return mk(tMPoly, mk(tPoly, tri))
	}
	return mk(tColl, pt(1, 0.5))
}

// spNameFor: expression names do not depend on the value, only on its type.
func spNameFor(_ G, sp spec) string { return sp.name }

func rtCheck(r *core.Run, c rtCase) {
	specs, sts, txt := rtEval(c)
	good := 0
	for i, sp := range specs {
		st := sts[i]
		r.Outcome(sp.clause + "/" + st.class)
		switch st.class {
		case "ok":
			good++
			continue
		case "unsupported":
			r.Count("skipped_unsupported", 1)
			continue
		case "dependent":
			r.Count("skipped_base_roundtrip_failed", 1)
			continue
		}
		// classifying coordinates: the SRS and the coordinate class are part of the signature
		// only when the same expression does not fail for SRID 0 / for ordinary coordinates
		sub := map[string]string{"fn": sp.fn, "type": typeNames[c.G.T], "shape": c.G.shape(), "srs": "any", "coords": "any"}
		if c.SRID != 0 {
			if rtFailures(rtCase{G: c.G, SRID: 0})[sp.name] != st.class {
				sub["srs"] = sridClass(c.SRID)
			}
		}
		if simple := canonical(c.G.T); true {
			// shape is a coordinate only when the simplest value of the type does not fail the same way
			if string(core.J(simple)) == string(core.J(c.G)) || rtFailures(rtCase{G: simple, SRID: c.SRID})[spNameFor(simple, sp)] == st.class {
				sub["shape"] = "any"
			}
		}
		if c.G.coordClass() != "ordinary" {
			if rtFailures(rtCase{G: c.G.ordinary(), SRID: c.SRID})[sp.name] != st.class {
				sub["coords"] = c.G.coordClass()
			}
		}
		if st.class == "panic" {
			sub["frame"] = st.frame
			r.Violate(core.Violation{Check: "roundtrip", Clause: "no-panic", Kind: "panic", Subject: sub, Witness: core.J(c), Observed: st.observed})
			continue
		}
		r.Violate(core.Violation{Check: "roundtrip", Clause: sp.clause, Kind: st.class, Subject: sub, Witness: core.J(c), Observed: st.observed, Expected: st.expected})
	}
	if good > 1 {
		r.NonTrivial(string(core.J(c)))
		if r.WantSample() && c.G.T == tColl && len(c.G.Sub) == 2 && c.SRID == 4326 {
			r.Sample(map[string]any{"check": "roundtrip", "case": c, "sql": c.G.sqlExprSRID(c.SRID), "st_astext": txt, "expressions_checked": len(specs), "expressions_equal_to_model": good})
		}
	}
}

// ---------------------------------------------------------------------------------------------
// check 2: SPATIAL index vs. direct evaluation on twin tables

type ixCase struct {
	SRID  uint32 `json:"srid"`
	Class string `json:"table_class"`
	Rows  []G    `json:"rows"`
	Q     G      `json:"q"`
	QSRID uint32 `json:"q_srid"`
	// Only, when set, restricts the replay to one predicate form (witness minimisation).
	Only string `json:"only,omitempty"`
}

type predForm struct {
	name string // signature coordinate
	tmpl string // %[1]s = column, %[2]s = query geometry
}

func predForms() []predForm {
	var out []predForm
	names := []string{"st_within", "st_contains", "st_intersects", "st_disjoint"}
	if eq := stEquals(); eq != "" {
		names = append(names, eq)
	}
	for _, n := range names {
		shown := n
		if n == "st_equal" {
			shown = "st_equals"
		}
		out = append(out, predForm{shown + "(col,q)", n + "(%[1]s,%[2]s)"}, predForm{shown + "(q,col)", n + "(%[2]s,%[1]s)"})
	}
	return out
}

type qres struct {
	class string // ok | unsupported | error:<class> | panic
	ids   []string
	err   error
	frame string
}

func runQ(s *eng.Session, q string) qres {
	r := s.Exec(q)
	switch {
	case r.Panic != nil:
		return qres{class: "panic", err: r.Err, frame: core.TopFrame(r.Stack)}
	case r.Err != nil:
		if isUnsupported(r.Err) {
			return qres{class: "unsupported", err: r.Err}
		}
		return qres{class: "error:" + errClass(r.Err), err: r.Err}
	}
	ids := make([]string, len(r.Rows))
	for i, row := range r.Rows {
		ids[i] = fmt.Sprint(row[0])
	}
	sort.Slice(ids, func(i, j int) bool {
		a, _ := strconv.Atoi(ids[i])
		b, _ := strconv.Atoi(ids[j])
		return a < b
	})
	return qres{class: "ok", ids: ids}
}

func (q qres) String() string {
	if q.class == "ok" {
		return "ids[" + strings.Join(q.ids, ",") + "]"
	}
	if q.err != nil {
		return q.class + ": " + q.err.Error()
	}
	return q.class
}

func ixCheck(r *core.Run, c ixCase) {
	s := ixTables(c)
	qexpr := c.Q.sqlExprSRID(c.QSRID)
	for _, pf := range predForms() {
		if c.Only != "" && c.Only != pf.name {
			continue
		}
		where := fmt.Sprintf(pf.tmpl, "g", qexpr)
		sub := map[string]string{"predicate": pf.name, "table_class": c.Class, "q_type": typeNames[c.Q.T], "q_srs": "same"}
		if c.QSRID != c.SRID {
			// one root cause whatever the predicate and table: only this coordinate classifies
			sub = map[string]string{"q_srs": "different"}
		}
		wit := c
		wit.Only = pf.name
		for _, form := range []struct{ name, sel string }{{"select-id", "select id from %s where %s"}, {"count", "select count(*) from %s where %s"}} {
			direct := runQ(s, fmt.Sprintf(form.sel, "plain", where))
			viaIdx := runQ(s, fmt.Sprintf(form.sel, "indexed", where))
			r.Count("predicate_queries", 1)
			if c.QSRID == c.SRID {
				sub["form"] = form.name
			}
			if direct.class == "panic" || viaIdx.class == "panic" {
				fr := direct.frame
				if viaIdx.class == "panic" {
					fr = viaIdx.frame
				}
				r.Outcome("index/panic")
				ps := map[string]string{"predicate": pf.name, "frame": fr}
				r.Violate(core.Violation{Check: "spatial-index", Clause: "no-panic", Kind: "panic", Subject: ps, Witness: core.J(wit), Observed: "direct: " + direct.String() + "; indexed: " + viaIdx.String()})
				continue
			}
			if direct.class == "unsupported" || viaIdx.class == "unsupported" {
				r.Count("skipped_unsupported", 1)
				r.Outcome("index/unsupported")
				continue
			}
			if direct.class != viaIdx.class || strings.Join(direct.ids, ",") != strings.Join(viaIdx.ids, ",") {
				kind := "different-rows"
				if direct.class != viaIdx.class {
					kind = "different-outcome"
				}
				r.Outcome("index/" + kind)
				cp := map[string]string{}
				for k, v := range sub {
					cp[k] = v
				}
				r.Violate(core.Violation{Check: "spatial-index", Clause: "indexed-table-returns-same-rows-as-unindexed-twin", Kind: kind, Subject: cp, Witness: core.J(ixMinimise(wit, form.sel, where, direct, viaIdx)),
					Observed: "indexed: " + viaIdx.String() + " <- " + fmt.Sprintf(form.sel, "indexed", where), Expected: "direct: " + direct.String()})
				continue
			}
			if direct.class != "ok" {
				r.Outcome("index/agree-" + direct.class)
				continue
			}
			// non-trivial: the indexed twin really went through the spatial index
			plan, _ := s.Plan(fmt.Sprintf(form.sel, "indexed", where))
			used := strings.Contains(plan, "IndexedTableAccess(indexed)")
			if used {
				r.Outcome("index/agree-via-index")
				r.Count("index_lookups_compared", 1)
				r.NonTrivial(string(core.J(wit)) + form.name)
				if r.WantSample() && len(direct.ids) > 0 && len(direct.ids) < len(c.Rows) && form.name == "select-id" {
					r.Sample(map[string]any{"check": "spatial-index", "query": fmt.Sprintf(form.sel, "indexed", where), "table_class": c.Class, "rows_in_table": len(c.Rows), "ids_both_tables": direct.ids})
				}
			} else {
				r.Outcome("index/agree-no-index-in-plan")
			}
		}
	}
}

// ixTables builds the twin tables on a fresh engine.
func ixTables(c ixCase) *eng.Session {
	s := eng.New().NewSession("root")
	sr := strconv.Itoa(int(c.SRID))
	s.MustExec("create table plain (id int primary key, g geometry not null srid " + sr + ")")
	s.MustExec("create table indexed (id int primary key, g geometry not null srid " + sr + ", spatial index (g))")
	for _, tbl := range []string{"plain", "indexed"} {
		var vals []string
		for i, g := range c.Rows {
			vals = append(vals, "("+strconv.Itoa(i+1)+","+g.sqlExprSRID(c.SRID)+")")
		}
		if len(vals) > 0 {
			s.MustExec("insert into " + tbl + " values " + strings.Join(vals, ","))
		}
	}
	return s
}

// ixMinimise shrinks the table of a disagreeing case to a single row when one row alone already
// shows a disagreement (rows whose ids differ are tried first).
func ixMinimise(c ixCase, sel, where string, direct, viaIdx qres) ixCase {
	if len(c.Rows) <= 1 {
		return c
	}
	in := func(l []string, x string) bool {
		for _, y := range l {
			if x == y {
				return true
			}
		}
		return false
	}
	var order []int
	for i := range c.Rows {
		id := strconv.Itoa(i + 1)
		if in(direct.ids, id) != in(viaIdx.ids, id) {
			order = append(order, i)
		}
	}
	if len(order) == 0 {
		for i := range c.Rows {
			order = append(order, i)
		}
	}
	for _, i := range order {
		one := c
		one.Rows = []G{c.Rows[i]}
		s := ixTables(one)
		d := runQ(s, fmt.Sprintf(sel, "plain", where))
		v := runQ(s, fmt.Sprintf(sel, "indexed", where))
		if d.class == "unsupported" || v.class == "unsupported" {
			continue
		}
		if d.class != v.class || strings.Join(d.ids, ",") != strings.Join(v.ids, ",") {
			return one
		}
	}
	return c
}

// ---------------------------------------------------------------------------------------------

type witness struct {
	RT *rtCase `json:"roundtrip,omitempty"`
	IX *ixCase `json:"index,omitempty"`
}

func init() {
	core.Register(&core.Prop{
		ID:    "C52",
		Level: "exploration",
		Rule: "check roundtrip: every geometry of the alphabet x SRID {0, 4326, 3857}; alphabet = every point over coordinates {0,1,-1,0.5,1e308,-0.0} (36), every 2-point linestring over those points (1296), every 3-point linestring over the 9 points with coordinates {0,1,0.5} (thorough: every 3-point linestring over all 36 points, 46656), " +
			"11 polygons (triangle cw/ccw, square, square with 1 and 2 holes, degenerate rings, huge and -0.0 coordinates), multipoints/multilinestrings/multipolygons of 1..2 members, every geometry collection of 0..2 members from an 11-element member list covering all seven types incl. empty and nested collections (thorough: + 3 members over 6); " +
			"each value is built with the SQL constructor functions and ~35 expressions are compared with values computed from the harness's own model and WKB encoder: ST_GeomFromText(ST_AsText(g),srid) = g, ST_GeomFromWKB(ST_AsWKB(g),srid) = g (internal bytes, ST_AsWKB bytes, ST_Equals), the three axis-order options, the type-specific ST_<Type>From{Text,WKB} functions and aliases, and reference WKB literals in little-endian, big-endian and mixed (per nested header) byte order. " +
			"check spatial-index: for every SRID x table class (one per geometry type + mixed) twin tables with and without a SPATIAL index holding the class's row alphabet, every query geometry (36 points, 29 linestrings, 11 polygons, multi-geometries, collections; plus a query geometry with a different SRID) x {ST_Within, ST_Contains, ST_Intersects, ST_Disjoint, ST_Equals} x both argument orders x {select id, select count(*)}: same outcome class and same id set. " +
			"A function rejecting a geometry type as unsupported (or unknown function) is outside the domain (skipped_unsupported). " +
			"non-trivial = roundtrip case with at least two expressions evaluated and equal to the model; index case whose plan on the indexed twin contains IndexedTableAccess and both twins return rows sets (not errors)",
		Assumptions: []string{
			"the internal geometry form is <SRID little-endian uint32><little-endian OGC WKB> (as in MySQL)",
			"for SRID 4326 the wire order (WKT and WKB) is latitude-longitude and 'axis-order=long-lat' swaps; for SRID 0 and 3857 axis-order options have no effect",
			"only SRIDs 0, 3857 and 4326 exist in this sandbox (sql/types/spatial_reference_systems.go is stubbed)",
			"ST_Equals is exercised under the name the engine registers (st_equal at the pinned commit)",
		},
		Run: func(r *core.Run) {
			a := buildAlphabet(r.Thorough())
			all := a.all()
			r.Info("geometries", len(all))
			r.Info("st_equals_registered_as", stEquals())
			var n int64
			for _, srid := range srids {
				for _, g := range all {
					n++
					if !r.Mine(n) {
						continue
					}
					if r.Expired() {
						r.Capped("time budget: roundtrip enumeration incomplete")
						return
					}
					r.Eval()
					rtCheck(r, rtCase{G: g, SRID: srid})
				}
			}
			rows := indexRows(a)
			qs := indexQueries(a, r.Thorough())
			r.Info("index_query_geometries", len(qs))
			for _, srid := range srids {
				for _, class := range classOrder {
					for qi, q := range qs {
						qsrids := []uint32{srid}
						if qi%16 == 0 { // a few queries also with a different SRID (error agreement)
							qsrids = append(qsrids, srids[(indexOf(srid)+1)%len(srids)])
						}
						for _, qs := range qsrids {
							n++
							if !r.Mine(n) {
								continue
							}
							if r.Expired() {
								r.Capped("time budget: spatial-index enumeration incomplete")
								return
							}
							r.Eval()
							ixCheck(r, ixCase{SRID: srid, Class: class, Rows: rows[class], Q: q, QSRID: qs})
						}
					}
				}
			}
			r.Info("cases_total", n)
		},
		Replay: func(r *core.Run, w json.RawMessage) {
			var c struct {
				G    *G      `json:"g"`
				SRID *uint32 `json:"srid"`
				Rows []G     `json:"rows"`
			}
			if json.Unmarshal(w, &c) != nil {
				return
			}
			if c.Rows != nil || c.G == nil {
				var ic ixCase
				if json.Unmarshal(w, &ic) != nil {
					return
				}
				for i := range ic.Rows {
					ic.Rows[i].fix()
				}
				ic.Q.fix()
				ixCheck(r, ic)
				return
			}
			var rc rtCase
			if json.Unmarshal(w, &rc) != nil {
				return
			}
			rc.G.fix()
			rtCheck(r, rc)
		},
	})
}

func indexOf(s uint32) int {
	for i, x := range srids {
		if x == s {
			return i
		}
	}
	return 0
}
