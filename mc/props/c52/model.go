package c52

import (
	"encoding/binary"
	"math"
	"strconv"
	"strings"
)

// G is the harness's own geometry model (independent of the engine's types).
type G struct {
	T   int     `json:"t"` // 1 point, 2 linestring, 3 polygon, 4 multipoint, 5 multilinestring, 6 multipolygon, 7 geometrycollection
	X   float64 `json:"x,omitempty"`
	Y   float64 `json:"y,omitempty"`
	NX  bool    `json:"nx,omitempty"` // X is -0.0 (JSON cannot carry the sign of zero reliably through omitempty)
	NY  bool    `json:"ny,omitempty"`
	Sub []G     `json:"sub,omitempty"` // line: points; polygon: rings; multi*: members; collection: members
}

const (
	tPoint = 1 + iota
	tLine
	tPoly
	tMPoint
	tMLine
	tMPoly
	tColl
)

var typeNames = map[int]string{tPoint: "point", tLine: "linestring", tPoly: "polygon", tMPoint: "multipoint", tMLine: "multilinestring", tMPoly: "multipolygon", tColl: "geometrycollection"}

func pt(x, y float64) G {
	g := G{T: tPoint, X: x, Y: y}
	g.NX = x == 0 && math.Signbit(x)
	g.NY = y == 0 && math.Signbit(y)
	return g
}

// fix restores the sign of zero after JSON decoding.
func (g *G) fix() {
	if g.T == tPoint {
		if g.NX {
			g.X = math.Copysign(0, -1)
		}
		if g.NY {
			g.Y = math.Copysign(0, -1)
		}
	}
	for i := range g.Sub {
		g.Sub[i].fix()
	}
}

func mk(t int, sub ...G) G { return G{T: t, Sub: sub} }

// swap exchanges X and Y of every point.
func (g G) swap() G {
	if g.T == tPoint {
		return pt(g.Y, g.X)
	}
	out := G{T: g.T, Sub: make([]G, len(g.Sub))}
	for i, s := range g.Sub {
		out.Sub[i] = s.swap()
	}
	return out
}

func fnum(x float64) string { return strconv.FormatFloat(x, 'e', -1, 64) }

// sqlExpr renders the geometry with the SQL constructor functions (no WKT/WKB involved).
func (g G) sqlExpr() string {
	if g.T == tPoint {
		return "point(" + fnum(g.X) + "," + fnum(g.Y) + ")"
	}
	parts := make([]string, len(g.Sub))
	for i, s := range g.Sub {
		parts[i] = s.sqlExpr()
	}
	return typeNames[g.T] + "(" + strings.Join(parts, ",") + ")"
}

func (g G) sqlExprSRID(srid uint32) string {
	if srid == 0 {
		return g.sqlExpr()
	}
	return "st_srid(" + g.sqlExpr() + "," + strconv.Itoa(int(srid)) + ")"
}

// byte-order policies for the reference WKB encoder
const (
	boLittle = iota
	boBig
	boMixed // big-endian at even nesting depth, little-endian at odd depth
)

func bigAt(policy, depth int) bool {
	switch policy {
	case boBig:
		return true
	case boMixed:
		return depth%2 == 0
	}
	return false
}

type wbuf struct{ b []byte }

func (w *wbuf) u32(v uint32, big bool) {
	var t [4]byte
	if big {
		binary.BigEndian.PutUint32(t[:], v)
	} else {
		binary.LittleEndian.PutUint32(t[:], v)
	}
	w.b = append(w.b, t[:]...)
}

func (w *wbuf) f64(v float64, big bool) {
	var t [8]byte
	if big {
		binary.BigEndian.PutUint64(t[:], math.Float64bits(v))
	} else {
		binary.LittleEndian.PutUint64(t[:], math.Float64bits(v))
	}
	w.b = append(w.b, t[:]...)
}

func (w *wbuf) header(t int, big bool) {
	if big {
		w.b = append(w.b, 0)
	} else {
		w.b = append(w.b, 1)
	}
	w.u32(uint32(t), big)
}

// body writes the part after the (byte order, type) header; rings and the points of a linestring
// have no header of their own and inherit the byte order, members of multi-geometries and
// collections carry their own header (OGC WKB).
func (w *wbuf) body(g G, big bool, policy, depth int) {
	switch g.T {
	case tPoint:
		w.f64(g.X, big)
		w.f64(g.Y, big)
	case tLine:
		w.u32(uint32(len(g.Sub)), big)
		for _, p := range g.Sub {
			w.f64(p.X, big)
			w.f64(p.Y, big)
		}
	case tPoly:
		w.u32(uint32(len(g.Sub)), big)
		for _, ring := range g.Sub {
			w.body(ring, big, policy, depth)
		}
	default:
		w.u32(uint32(len(g.Sub)), big)
		for _, m := range g.Sub {
			mb := bigAt(policy, depth+1)
			w.header(m.T, mb)
			w.body(m, mb, policy, depth+1)
		}
	}
}

// refWKB is the reference OGC well-known-binary encoding of g.
func refWKB(g G, policy int) []byte {
	w := &wbuf{}
	big := bigAt(policy, 0)
	w.header(g.T, big)
	w.body(g, big, policy, 0)
	return w.b
}

// refInternal is the engine's documented internal form: 4-byte little-endian SRID followed by
// little-endian WKB (the same layout MySQL uses for geometry values).
func refInternal(g G, srid uint32) []byte {
	var t [4]byte
	binary.LittleEndian.PutUint32(t[:], srid)
	return append(t[:], refWKB(g, boLittle)...)
}

// ---------------------------------------------------------------------------------------------
// classification (signature coordinates)

func (g G) walk(f func(G, int), depth int) {
	f(g, depth)
	for _, s := range g.Sub {
		s.walk(f, depth+1)
	}
}

// coordClass: ordinary | negative-zero | huge | huge+negative-zero
func (g G) coordClass() string {
	nz, huge := false, false
	g.walk(func(x G, _ int) {
		if x.T == tPoint {
			nz = nz || (x.X == 0 && math.Signbit(x.X)) || (x.Y == 0 && math.Signbit(x.Y))
			huge = huge || math.Abs(x.X) > 1e300 || math.Abs(x.Y) > 1e300
		}
	}, 0)
	switch {
	case nz && huge:
		return "huge+negative-zero"
	case nz:
		return "negative-zero"
	case huge:
		return "huge"
	}
	return "ordinary"
}

// isEmpty: no point anywhere (an empty collection, or collections of empty collections).
func (g G) isEmpty() bool {
	n := 0
	g.walk(func(x G, _ int) {
		if x.T == tPoint {
			n++
		}
	}, 0)
	return n == 0
}

// ordinary maps the special coordinates to ordinary ones (-0.0 -> 0, 1e308 -> 1).
func (g G) ordinary() G {
	if g.T == tPoint {
		f := func(v float64) float64 {
			if v == 0 {
				return 0
			}
			if math.Abs(v) > 1e300 {
				return math.Copysign(1, v)
			}
			return v
		}
		return pt(f(g.X), f(g.Y))
	}
	out := G{T: g.T, Sub: make([]G, len(g.Sub))}
	for i, s := range g.Sub {
		out.Sub[i] = s.ordinary()
	}
	if len(out.Sub) == 0 {
		out.Sub = nil
	}
	return out
}

// shape: structural class of the value (only polygons and collections are subdivided).
func (g G) shape() string {
	switch g.T {
	case tPoly:
		if len(g.Sub) > 1 {
			return "polygon-with-hole"
		}
		return "polygon-simple"
	case tColl:
		if len(g.Sub) == 0 {
			return "empty-collection"
		}
		emptyBeforeLast, emptyLast, nested := false, false, false
		g.walk(func(x G, depth int) {
			if x.T != tColl {
				return
			}
			if depth > 0 {
				nested = true
			}
			for i, m := range x.Sub {
				if m.T == tColl && len(m.Sub) == 0 {
					if i < len(x.Sub)-1 {
						emptyBeforeLast = true
					} else {
						emptyLast = true
					}
				}
			}
		}, 0)
		switch {
		case emptyBeforeLast:
			return "collection-with-empty-collection-before-last-member"
		case emptyLast:
			return "collection-with-empty-collection-as-last-member"
		case nested:
			return "collection-nested"
		}
		return "collection-flat"
	}
	return typeNames[g.T]
}

func sridClass(srid uint32) string {
	switch srid {
	case 0:
		return "cartesian-0"
	case 4326:
		return "geographic-4326"
	}
	return "projected-" + strconv.Itoa(int(srid))
}
