package qgen

import (
	"fmt"
	"strings"

	. "verif/mc/sqlref"
)

// R is one (a,b) row; nil = NULL.
type R [2]*int64

func iv(i int64) *int64 { return &i }

func (r R) String() string {
	f := func(p *int64) string {
		if p == nil {
			return "NULL"
		}
		return fmt.Sprint(*p)
	}
	return "(" + f(r[0]) + "," + f(r[1]) + ")"
}

// DBSpec is one member of the standard database family.
type DBSpec struct {
	Family string // star, one, pk2
	Layout string // nokey, idx, pk
	T      map[string][]R
}

func (d DBSpec) Name() string {
	var sb strings.Builder
	fmt.Fprintf(&sb, "%s/%s", d.Family, d.Layout)
	if d.Family != "star" && d.Family != "ministar" {
		for _, t := range []string{"t", "u", "v"} {
			fmt.Fprintf(&sb, " %s=%v", t, d.T[t])
		}
	}
	return sb.String()
}

func (d DBSpec) LayoutClass() string {
	if d.Layout == "nokey" {
		return "unindexed"
	}
	return "indexed"
}

// DDL returns the statements creating and filling the database.
func (d DBSpec) DDL() []string {
	var out []string
	for _, t := range []string{"t", "u", "v"} {
		switch d.Layout {
		case "nokey":
			out = append(out, fmt.Sprintf("create table %s (a int, b int)", t))
		case "idx":
			out = append(out, fmt.Sprintf("create table %s (a int, b int, key ka (a), key kb (b))", t))
		case "pk":
			out = append(out, fmt.Sprintf("create table %s (a int primary key, b int, key kb (b))", t))
		case "ab":
			out = append(out, fmt.Sprintf("create table %s (a int, b int, key kab (a, b))", t))
		}
		rows := d.T[t]
		if len(rows) > 0 {
			parts := make([]string, len(rows))
			for i, r := range rows {
				parts[i] = r.String()
			}
			out = append(out, fmt.Sprintf("insert into %s values %s", t, strings.Join(parts, ",")))
		}
	}
	return out
}

// Ref builds the reference database.
func (d DBSpec) Ref() *DB {
	db := NewDB()
	for _, t := range []string{"t", "u", "v"} {
		tb := &Table{Name: t, Cols: []string{"a", "b"}}
		for _, r := range d.T[t] {
			row := make(Row, 2)
			for i := 0; i < 2; i++ {
				if r[i] == nil {
					row[i] = Null
				} else {
					row[i] = Int(*r[i])
				}
			}
			tb.Rows = append(tb.Rows, row)
		}
		db.Add(tb)
	}
	return db
}

// Without returns a copy of d with row i of table t removed.
func (d DBSpec) Without(t string, i int) DBSpec {
	fam := d.Family
	if !strings.HasSuffix(fam, "-min") {
		fam += "-min"
	}
	n := DBSpec{Family: fam, Layout: d.Layout, T: map[string][]R{}}
	for k, v := range d.T {
		if k == t {
			n.T[k] = append(append([]R{}, v[:i]...), v[i+1:]...)
		} else {
			n.T[k] = v
		}
	}
	return n
}

func starRows() []R {
	dom := []*int64{nil, iv(0), iv(1), iv(2)}
	var rows []R
	for _, a := range dom {
		for _, b := range dom {
			rows = append(rows, R{a, b})
		}
	}
	// duplicates
	rows = append(rows, R{nil, nil}, R{iv(1), iv(1)}, R{iv(1), nil}, R{iv(2), iv(1)})
	return rows
}

func oneRows() [][]R {
	dom := []*int64{nil, iv(1), iv(2)}
	out := [][]R{nil}
	for _, a := range dom {
		for _, b := range dom {
			out = append(out, []R{{a, b}})
		}
	}
	return out
}

func pk2Contents() [][]R {
	bs := []*int64{nil, iv(1), iv(2)}
	out := [][]R{nil}
	for _, a := range []int64{1, 2} {
		for _, b := range bs {
			out = append(out, []R{{iv(a), b}})
		}
	}
	for _, b1 := range bs {
		for _, b2 := range bs {
			out = append(out, []R{{iv(1), b1}, {iv(2), b2}})
		}
	}
	return out
}

// Databases returns the family for a tier. level 0 = small (quick, combined queries), 1 = quick
// full (single-slot queries), 2 = thorough.
func Databases(level int) []DBSpec {
	var out []DBSpec
	star := starRows()
	vstar := star[:16]
	// u differs from t in its duplicates (t: four rows twice; u: (2,1) three times, (0,0) twice), so
	// that multiset-sensitive operators (EXCEPT ALL, INTERSECT ALL, joins of duplicates) see
	// different multiplicities on the two sides
	ustar := append(append([]R{}, star[:16]...), R{iv(2), iv(1)}, R{iv(2), iv(1)}, R{iv(0), iv(0)})
	for _, l := range []string{"nokey", "idx", "ab"} {
		if level == 0 && l == "ab" && false {
			continue
		}
		out = append(out, DBSpec{Family: "star", Layout: l, T: map[string][]R{"t": star, "u": ustar, "v": vstar}})
	}
	if level == -2 { // mini-star: every row over {NULL,1,2}^2 once + two duplicates, indexed layouts
		var mini []R
		for _, r := range star[:16] {
			if (r[0] == nil || *r[0] != 0) && (r[1] == nil || *r[1] != 0) {
				mini = append(mini, r)
			}
		}
		mini = append(mini, R{nil, nil}, R{iv(1), iv(1)})
		out = nil
		for _, l := range []string{"idx", "ab"} {
			umini := append(append([]R{}, mini[:9]...), R{iv(2), iv(1)}, R{iv(2), iv(1)})
			out = append(out, DBSpec{Family: "ministar", Layout: l, T: map[string][]R{"t": mini, "u": umini, "v": mini[:9]}})
		}
		return out
	}
	if level < 0 { // star databases only
		return out
	}
	ones := oneRows()
	vs := [][]R{{{iv(1), iv(1)}}}
	if level >= 2 {
		vs = [][]R{nil, {{iv(1), iv(1)}}, {{nil, iv(2)}}}
	}
	sel := func(i int) bool {
		if level >= 1 {
			return true
		}
		return i == 0 || i == 1 || i == 5 || i == 6 || i == 8 // empty, (N,N), (1,1), (1,2), (2,1)
	}
	for i, t := range ones {
		for j, u := range ones {
			if !sel(i) || !sel(j) {
				continue
			}
			for _, v := range vs {
				out = append(out, DBSpec{Family: "one", Layout: "nokey", T: map[string][]R{"t": t, "u": u, "v": v}})
			}
		}
	}
	pk := pk2Contents()
	selpk := func(i int) bool {
		if level >= 1 {
			return true
		}
		return i == 0 || i == 1 || i == 2 || i == 7 || i == 9 || i == 11 || i == 15
	}
	for i, t := range pk {
		for j, u := range pk {
			if !selpk(i) || !selpk(j) {
				continue
			}
			out = append(out, DBSpec{Family: "pk2", Layout: "pk", T: map[string][]R{"t": t, "u": u, "v": {{iv(1), nil}, {iv(2), iv(1)}}}})
		}
	}
	return out
}
