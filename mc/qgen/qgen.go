// Package qgen enumerates the standard query grammar Q(d) (DESIGN.md Appendix A) and the standard
// database family. A query is a base SELECT over t with a set of feature slots — join, filter,
// subquery predicate, grouping, distinct, set operation, order/limit — each at its default
// (absent) or at one of its enumerated alternatives; Q(d) = all queries with at most d non-default
// slots. Every alternative carries a feature tag used in evidence and violation signatures.
package qgen

import (
	"fmt"
	"math/big"
	"strings"

	. "verif/mc/sqlref"
)

// GQ is a generated query with its feature tags.
type GQ struct {
	Q      *Query
	Tags   []string // one per non-default slot, e.g. "join:left(t.a=u.a)"
	Tables int      // number of base tables mentioned (1..3)
}

func (g GQ) SQL() string { return g.Q.SQL() }

// Classes returns the slot classes of the tags (e.g. "sub:not-in").
func (g GQ) Classes() []string {
	out := make([]string, len(g.Tags))
	for i, t := range g.Tags {
		if j := strings.Index(t, "("); j > 0 {
			t = t[:j]
		}
		out[i] = t
	}
	return out
}

func c(t, col string) Col { return Col{T: t, C: col} }
func k(i int64) Const     { return Const{V: Int(i)} }

var knull = Const{V: Null}

// kdec is the decimal literal n/d (rendered with four decimals, e.g. 1.5000)
func kdec(n, d int64) Const { return Const{V: Rat(big.NewRat(n, d))} }

// alt is one alternative of a slot: it edits the query in place; ok=false = incompatible.
type alt struct {
	tag   string
	apply func(q *Query) bool
}

type Options struct {
	// Rep: when a slot is combined with another slot use only its representative alternatives.
	Rep bool
	// MaxTables limits joins (2 or 3).
	MaxTables int
}

var cmpOps = []string{"=", "<>", "<", "<=", ">", ">=", "<=>"}

// ---------------------------------------------------------------- join slot

func joinAlts(maxTables int) []alt {
	var out []alt
	ons := []struct {
		name string
		e    Expr
	}{
		{"t.a=u.a", Cmp{"=", c("t", "a"), c("u", "a")}},
		{"t.b=u.b", Cmp{"=", c("t", "b"), c("u", "b")}},
		{"t.a=u.b", Cmp{"=", c("t", "a"), c("u", "b")}},
		{"t.a<u.a", Cmp{"<", c("t", "a"), c("u", "a")}},
		{"t.a<=>u.a", Cmp{"<=>", c("t", "a"), c("u", "a")}},
		{"t.a=u.a&t.b=u.b", And{Cmp{"=", c("t", "a"), c("u", "a")}, Cmp{"=", c("t", "b"), c("u", "b")}}},
	}
	kinds := []struct {
		name string
		k    JoinKind
	}{{"inner", JoinInner}, {"left", JoinLeft}, {"right", JoinRight}}
	for _, kd := range kinds {
		for _, on := range ons {
			kd, on := kd, on
			out = append(out, alt{fmt.Sprintf("join:%s(%s)", kd.name, on.name), func(q *Query) bool {
				q.From = append(q.From, TableRef{Name: "u", Kind: kd.k, On: on.e})
				return true
			}})
		}
	}
	out = append(out, alt{"join:cross", func(q *Query) bool {
		q.From = append(q.From, TableRef{Name: "u", Kind: JoinCross})
		return true
	}})
	for _, on := range ons[:3] {
		on := on
		out = append(out, alt{fmt.Sprintf("join:comma(%s)", on.name), func(q *Query) bool {
			q.From = append(q.From, TableRef{Name: "u", Kind: JoinComma})
			q.Where = on.e
			return true
		}})
	}
	if maxTables >= 3 {
		ons3 := []struct {
			name string
			e    Expr
		}{
			{"u.a=v.a", Cmp{"=", c("u", "a"), c("v", "a")}},
			{"t.b=v.b", Cmp{"=", c("t", "b"), c("v", "b")}},
		}
		for _, k1 := range kinds[:2] {
			for _, k2 := range kinds[:2] {
				for _, on3 := range ons3 {
					k1, k2, on3 := k1, k2, on3
					out = append(out, alt{fmt.Sprintf("join3:%s-%s(%s)", k1.name, k2.name, on3.name), func(q *Query) bool {
						q.From = append(q.From, TableRef{Name: "u", Kind: k1.k, On: ons[0].e})
						q.From = append(q.From, TableRef{Name: "v", Kind: k2.k, On: on3.e})
						return true
					}})
				}
			}
		}
		// the third table as the preserved side of a RIGHT JOIN over a cross / inner / left join
		// of t and u (left-deep `t cross join u right join v on …`): a WHERE predicate over t and
		// u then sits above an outer join whose null-supplying side is itself a join
		rights := []struct {
			name string
			k1   JoinKind
			on1  Expr
		}{{"cross", JoinCross, nil}, {"inner", JoinInner, ons[0].e}, {"left", JoinLeft, ons[0].e}}
		for _, rj := range rights {
			for _, on3 := range []struct {
				name string
				e    Expr
			}{{"v.a=t.a", Cmp{"=", c("v", "a"), c("t", "a")}}, {"v.b=u.b", Cmp{"=", c("v", "b"), c("u", "b")}}} {
				rj, on3 := rj, on3
				if rj.name != "cross" && on3.name == "v.b=u.b" {
					continue
				}
				out = append(out, alt{fmt.Sprintf("join3:%s-right(%s)", rj.name, on3.name), func(q *Query) bool {
					q.From = append(q.From, TableRef{Name: "u", Kind: rj.k1, On: rj.on1})
					q.From = append(q.From, TableRef{Name: "v", Kind: JoinRight, On: on3.e})
					return true
				}})
			}
		}
	}
	return out
}

// ---------------------------------------------------------------- filter slot

type natom struct {
	name string
	e    Expr
}

func has(q *Query, tbl string) bool {
	for _, f := range q.From {
		if f.Ref() == tbl {
			return true
		}
	}
	return false
}

// atoms over t (and u when joined).
func atoms(joined bool) []natom {
	var out []natom
	add := func(e Expr) { out = append(out, natom{e.SQL(), e}) }
	a, b := c("t", "a"), c("t", "b")
	for _, op := range cmpOps {
		add(Cmp{op, a, b})
		add(Cmp{op, a, k(1)})
		add(Cmp{op, a, k(2)})
		add(Cmp{op, b, k(1)})
	}
	for _, op := range []string{"=", "<>", "<=>"} {
		add(Cmp{op, a, knull})
	}
	// literal on the LEFT of the comparison (range construction mirrors the operator)
	for _, op := range cmpOps {
		add(Cmp{op, k(1), a})
		add(Cmp{op, k(2), b})
	}
	add(IsNull{a, false})
	add(IsNull{a, true})
	add(IsNull{b, false})
	add(IsNull{b, true})
	for _, not := range []bool{false, true} {
		add(InList{a, []Expr{k(1), k(2)}, not})
		add(InList{a, []Expr{k(1), knull}, not})
		// elements of one kind but two types: the integer column must be compared as a decimal
		add(InList{a, []Expr{k(1), kdec(3, 2)}, not})
		add(InList{b, []Expr{knull}, not})
		add(InList{a, []Expr{b, k(2)}, not})
		add(Between{a, k(1), k(2), not})
		add(Between{b, knull, k(2), not})
		add(Between{a, b, k(2), not})
	}
	add(Cmp{"=", Arith{"+", a, b}, k(2)})
	add(Cmp{">", Arith{"*", a, b}, k(1)})
	add(Cmp{"=", Func{"COALESCE", []Expr{a, b}}, k(1)})
	add(Cmp{"=", Func{"IFNULL", []Expr{b, k(0)}}, k(0)})
	add(IsNull{Func{"NULLIF", []Expr{a, b}}, false})
	add(Cmp{"=", Case{Cmp{">", a, k(1)}, b, a}, k(1)})
	add(Cmp{"=", Func{"IF", []Expr{IsNull{a, false}, b, a}}, k(2)})
	if joined {
		ua, ub := c("u", "a"), c("u", "b")
		for _, op := range cmpOps {
			add(Cmp{op, a, ub})
		}
		add(Cmp{"=", b, ua})
		add(IsNull{ua, false})
		add(IsNull{ub, true})
		add(Cmp{"=", ua, k(1)})
		add(Cmp{"<>", ub, k(2)})
		add(InList{ua, []Expr{a, b}, true})
		add(Cmp{"=", Func{"COALESCE", []Expr{ub, a}}, k(2)})
	}
	return out
}

// repAtoms: one per operator class, each TRUE, FALSE and NULL somewhere on DB*.
func repAtoms(joined bool) []natom {
	a, b := c("t", "a"), c("t", "b")
	es := []Expr{
		Cmp{"=", a, k(1)},
		Cmp{"<", a, b},
		Cmp{"<=>", b, knull},
		IsNull{b, false},
		InList{a, []Expr{k(1), knull}, true},
		Between{a, k(1), k(2), false},
		Cmp{"=", Func{"COALESCE", []Expr{a, b}}, k(1)},
		Cmp{"<>", b, k(2)},
		Cmp{">=", k(1), a},
		Cmp{"<", k(1), b},
	}
	if joined {
		es = append(es, Cmp{"=", a, c("u", "b")}, IsNull{c("u", "a"), false})
	}
	var out []natom
	for _, e := range es {
		out = append(out, natom{e.SQL(), e})
	}
	return out
}

func addWhere(q *Query, e Expr) {
	if q.Where == nil {
		q.Where = e
	} else {
		q.Where = And{q.Where, e}
	}
}

func filterAlts(joined bool, rep bool) []alt {
	var out []alt
	mk := func(tag string, e Expr) alt {
		return alt{tag, func(q *Query) bool { addWhere(q, e); return true }}
	}
	base := atoms(joined)
	reps := repAtoms(joined)
	if rep {
		for _, a := range reps {
			out = append(out, mk("filter:atom("+a.name+")", a.e))
			out = append(out, mk("filter:not("+a.name+")", Not{a.e}))
		}
		return out
	}
	for _, a := range base {
		out = append(out, mk("filter:atom("+a.name+")", a.e))
		out = append(out, mk("filter:not("+a.name+")", Not{a.e}))
	}
	for i, x := range reps {
		for j, y := range reps {
			if i == j {
				continue
			}
			out = append(out, mk("filter:and("+x.name+","+y.name+")", And{x.e, y.e}))
			out = append(out, mk("filter:or("+x.name+","+y.name+")", Or{x.e, y.e}))
		}
	}
	return out
}

// ---------------------------------------------------------------- subquery slot

// subqueries S1 over s (an alias of table u, or of v when u is already joined).
func subAlts(rep bool) []alt {
	var out []alt
	ta, tb := c("t", "a"), c("t", "b")
	type s1 struct {
		name string
		mk   func(tbl string) *Query
		corr bool
		agg  bool
	}
	sel := func(tbl string, e Expr, where Expr) *Query {
		q := NewQuery()
		q.From = []TableRef{{Name: tbl, Alias: "s"}}
		q.Select = []SelItem{{E: e}}
		q.Where = where
		return q
	}
	sa, sb := c("s", "a"), c("s", "b")
	subs := []s1{
		{"b", func(t string) *Query { return sel(t, sb, nil) }, false, false},
		{"a", func(t string) *Query { return sel(t, sa, nil) }, false, false},
		{"b|a=1", func(t string) *Query { return sel(t, sb, Cmp{"=", sa, k(1)}) }, false, false},
		{"b|b notnull", func(t string) *Query { return sel(t, sb, IsNull{sb, true}) }, false, false},
		{"b|s.a=t.a", func(t string) *Query { return sel(t, sb, Cmp{"=", sa, ta}) }, true, false},
		{"a|s.b=t.b", func(t string) *Query { return sel(t, sa, Cmp{"=", sb, tb}) }, true, false},
		{"a|s.b<t.a", func(t string) *Query { return sel(t, sa, Cmp{"<", sb, ta}) }, true, false},
	}
	aggs := []s1{
		{"max(b)", func(t string) *Query { return sel(t, Agg{Fn: "MAX", Arg: sb}, nil) }, false, true},
		{"count(*)|s.a=t.a", func(t string) *Query { return sel(t, Agg{Fn: "COUNT"}, Cmp{"=", sa, ta}) }, true, true},
		{"min(a)|s.b=t.b", func(t string) *Query { return sel(t, Agg{Fn: "MIN", Arg: sa}, Cmp{"=", sb, tb}) }, true, true},
		{"sum(b)", func(t string) *Query { return sel(t, Agg{Fn: "SUM", Arg: sb}, nil) }, false, true},
	}
	subTable := func(q *Query) string {
		if has(q, "u") {
			if has(q, "v") {
				return ""
			}
			return "v"
		}
		return "u"
	}
	add := func(tag string, mkPred func(sq *Query) Expr, s s1, inSelect bool) {
		out = append(out, alt{tag, func(q *Query) bool {
			tbl := subTable(q)
			if tbl == "" {
				return false
			}
			p := mkPred(s.mk(tbl))
			if inSelect {
				if !q.Star && len(q.Select) > 0 {
					return false
				}
				q.Star = false
				q.Select = []SelItem{{E: ta, Alias: "c1"}, {E: tb, Alias: "c2"}, {E: p, Alias: "c3"}}
				return true
			}
			addWhere(q, p)
			return true
		}})
	}
	list := subs
	if rep {
		list = []s1{subs[0], subs[4]}
	}
	for _, s := range list {
		s := s
		for _, not := range []bool{false, true} {
			not := not
			n := ""
			if not {
				n = "not-"
			}
			add("sub:"+n+"exists("+s.name+")", func(sq *Query) Expr { return Exists{sq, not} }, s, false)
			add("sub:"+n+"in("+s.name+")", func(sq *Query) Expr { return InSub{ta, sq, not} }, s, false)
		}
		if rep {
			continue
		}
		add("sub:not-in-b("+s.name+")", func(sq *Query) Expr { return InSub{tb, sq, true} }, s, false)
		for _, op := range []string{"=", "<", ">="} {
			op := op
			add("sub:any"+op+"("+s.name+")", func(sq *Query) Expr { return QuantCmp{op, "ANY", ta, sq} }, s, false)
			add("sub:all"+op+"("+s.name+")", func(sq *Query) Expr { return QuantCmp{op, "ALL", ta, sq} }, s, false)
		}
		add("sub:sel-in("+s.name+")", func(sq *Query) Expr { return InSub{ta, sq, false} }, s, true)
		add("sub:sel-not-in("+s.name+")", func(sq *Query) Expr { return InSub{ta, sq, true} }, s, true)
		add("sub:sel-exists("+s.name+")", func(sq *Query) Expr { return Exists{sq, false} }, s, true)
	}
	alist := aggs
	if rep {
		alist = aggs[:2]
	}
	for _, s := range alist {
		s := s
		for _, op := range []string{"=", "<", "<=>"} {
			op := op
			add("sub:scalar"+op+"("+s.name+")", func(sq *Query) Expr { return Cmp{op, ta, ScalarSub{sq}} }, s, false)
		}
		if !rep {
			add("sub:sel-scalar("+s.name+")", func(sq *Query) Expr { return ScalarSub{sq} }, s, true)
		}
	}
	return out
}

// ---------------------------------------------------------------- grouping slot

func groupAlts(rep bool) []alt {
	var out []alt
	ta, tb := c("t", "a"), c("t", "b")
	aggSets := [][]Expr{
		{Agg{Fn: "COUNT"}},
		{Agg{Fn: "COUNT", Arg: tb}, Agg{Fn: "SUM", Arg: tb}},
		{Agg{Fn: "MIN", Arg: tb}, Agg{Fn: "MAX", Arg: tb}},
		{Agg{Fn: "AVG", Arg: tb}},
		{Agg{Fn: "COUNT", Arg: tb, Distinct: true}, Agg{Fn: "SUM", Arg: tb, Distinct: true}},
	}
	if rep {
		aggSets = aggSets[:3]
	}
	type gb struct {
		name string
		by   []Expr
	}
	gbs := []gb{{"none", nil}, {"a", []Expr{ta}}, {"a,b", []Expr{ta, tb}}, {"b", []Expr{tb}}}
	havings := []struct {
		name string
		e    Expr
	}{
		{"", nil},
		{"count>1", Cmp{">", Agg{Fn: "COUNT"}, k(1)}},
		{"max(b)=2", Cmp{"=", Agg{Fn: "MAX", Arg: tb}, k(2)}},
		{"sum(b) is null", IsNull{Agg{Fn: "SUM", Arg: tb}, false}},
	}
	if rep {
		havings = havings[:2]
	}
	for _, g := range gbs {
		for ai, as := range aggSets {
			for _, h := range havings {
				g, as, h := g, as, h
				tag := fmt.Sprintf("group:by-%s/aggs%d", g.name, ai)
				if h.e != nil {
					tag = fmt.Sprintf("group:having(%s)/by-%s/aggs%d", h.name, g.name, ai)
				}
				out = append(out, alt{tag, func(q *Query) bool {
					if !q.Star {
						return false // select list already taken by a select-list subquery
					}
					q.Star = false
					q.GroupBy = g.by
					q.Select = nil
					for i, e := range g.by {
						q.Select = append(q.Select, SelItem{E: e, Alias: fmt.Sprintf("g%d", i+1)})
					}
					for i, e := range as {
						q.Select = append(q.Select, SelItem{E: e, Alias: fmt.Sprintf("x%d", i+1)})
					}
					q.Having = h.e
					return true
				}})
			}
		}
	}
	return out
}

// ---------------------------------------------------------------- distinct slot

func distinctAlts() []alt {
	ta, tb := c("t", "a"), c("t", "b")
	mk := func(tag string, items []SelItem) alt {
		return alt{tag, func(q *Query) bool {
			if len(q.GroupBy) > 0 || q.Having != nil {
				return false
			}
			if q.Star {
				if items != nil {
					q.Star = false
					q.Select = items
				}
			} else if items != nil {
				return false
			}
			q.Distinct = true
			return true
		}}
	}
	return []alt{
		mk("distinct:star", nil),
		mk("distinct:a", []SelItem{{E: ta, Alias: "c1"}}),
		mk("distinct:b", []SelItem{{E: tb, Alias: "c1"}}),
		mk("distinct:a+b", []SelItem{{E: Arith{"+", ta, tb}, Alias: "c1"}}),
	}
}

// ---------------------------------------------------------------- set-operation slot

func setAlts(rep bool) []alt {
	var out []alt
	ua, ub := c("u", "a"), c("u", "b")
	rights := []struct {
		name string
		w    Expr
	}{
		{"u", nil},
		{"u|a=1", Cmp{"=", ua, k(1)}},
		{"u|b null", IsNull{ub, false}},
		{"u|a<b", Cmp{"<", ua, ub}},
	}
	if rep {
		rights = rights[:2]
	}
	for _, op := range []string{"UNION", "INTERSECT", "EXCEPT"} {
		for _, all := range []bool{false, true} {
			for _, r := range rights {
				op, all, r := op, all, r
				a := ""
				if all {
					a = "-all"
				}
				out = append(out, alt{fmt.Sprintf("set:%s%s(%s)", strings.ToLower(op), a, r.name), func(q *Query) bool {
					if len(q.From) != 1 || len(q.GroupBy) > 0 || q.Having != nil {
						return false
					}
					ncols := 2
					if !q.Star {
						ncols = len(q.Select)
					}
					rq := NewQuery()
					rq.From = []TableRef{{Name: "u"}}
					rq.Where = r.w
					switch ncols {
					case 2:
						rq.Star = true
					case 1:
						rq.Select = []SelItem{{E: ua}}
					default:
						return false
					}
					q.SetOp, q.SetAll, q.Right = op, all, rq
					return true
				}})
			}
		}
	}
	return out
}

// ---------------------------------------------------------------- order/limit slot

func orderAlts() []alt {
	var out []alt
	for _, desc := range []bool{false, true} {
		for _, lim := range []int{-1, 0, 1, 2} {
			for _, off := range []int{0, 1} {
				if lim == -1 && off == 1 {
					continue
				}
				desc, lim, off := desc, lim, off
				d := "asc"
				if desc {
					d = "desc"
				}
				out = append(out, alt{fmt.Sprintf("order:%s/limit%d/offset%d", d, lim, off), func(q *Query) bool {
					// total order over all output columns (by position aliases)
					var names []string
					if q.Star {
						if len(q.From) != 1 {
							// give the output unique names
							q.Star = false
							n := 0
							for _, f := range q.From {
								for _, col := range []string{"a", "b"} {
									n++
									q.Select = append(q.Select, SelItem{E: Col{T: f.Ref(), C: col}, Alias: fmt.Sprintf("c%d", n)})
								}
							}
						} else {
							names = []string{"a", "b"}
						}
					}
					if names == nil {
						for _, s := range q.Select {
							if s.Alias == "" {
								return false
							}
							names = append(names, s.Alias)
						}
					}
					for i, n := range names {
						q.OrderBy = append(q.OrderBy, OrderItem{E: Col{C: n}, Desc: desc != (i%2 == 1)})
					}
					q.Limit, q.Offset = lim, off
					return true
				}})
			}
		}
	}
	return out
}

// ---------------------------------------------------------------- enumeration

// Enumerate calls f for every query of Q(d), in a fixed simplest-first order (fewer slots first).
func Enumerate(d int, opt Options, f func(g GQ)) {
	if opt.MaxTables == 0 {
		opt.MaxTables = 2
	}
	type slot struct {
		name string
		alts func(q *Query, combined bool) []alt
	}
	slots := []slot{
		{"join", func(q *Query, comb bool) []alt { return joinAlts(opt.MaxTables) }},
		{"filter", func(q *Query, comb bool) []alt { return filterAlts(has(q, "u"), comb && opt.Rep) }},
		{"sub", func(q *Query, comb bool) []alt { return subAlts(comb && opt.Rep) }},
		{"group", func(q *Query, comb bool) []alt { return groupAlts(comb && opt.Rep) }},
		{"distinct", func(q *Query, comb bool) []alt { return distinctAlts() }},
		{"set", func(q *Query, comb bool) []alt { return setAlts(comb && opt.Rep) }},
		{"order", func(q *Query, comb bool) []alt { return orderAlts() }},
	}
	base := func() *Query {
		q := NewQuery()
		q.From = []TableRef{{Name: "t"}}
		q.Star = true
		return q
	}
	// choose subsets of slots of size n (in slot order), then alternatives
	var rec func(n int, start int, chosen []int)
	emit := func(chosen []int) {
		comb := len(chosen) > 1
		// alternatives depend on the query built so far: expand recursively with replays
		var expand func(i int, path []int)
		expand = func(i int, path []int) {
			// rebuild the query along path
			q := base()
			var tags []string
			ok := true
			for j, ai := range path {
				alts := slots[chosen[j]].alts(q, comb)
				a := alts[ai]
				if !a.apply(q) {
					ok = false
					break
				}
				tags = append(tags, a.tag)
			}
			if !ok {
				return
			}
			if i == len(chosen) {
				nt := 0
				for _, tb := range []string{"t", "u", "v"} {
					if strings.Contains(" "+q.SQL()+" ", " "+tb+" ") || strings.Contains(q.SQL(), " "+tb+".") || strings.Contains(q.SQL(), "("+tb+".") || strings.Contains(q.SQL(), " "+tb+")") || strings.Contains(q.SQL(), " "+tb+",") {
						nt++
					}
				}
				f(GQ{Q: q, Tags: tags, Tables: nt})
				return
			}
			n := len(slots[chosen[i]].alts(q, comb))
			for ai := 0; ai < n; ai++ {
				expand(i+1, append(append([]int{}, path...), ai))
			}
		}
		expand(0, nil)
	}
	rec = func(n int, start int, chosen []int) {
		if len(chosen) == n {
			emit(chosen)
			return
		}
		for s := start; s < len(slots); s++ {
			rec(n, s+1, append(append([]int{}, chosen...), s))
		}
	}
	for n := 0; n <= d; n++ {
		rec(n, 0, nil)
	}
}
