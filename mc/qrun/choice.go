package qrun

import (
	"fmt"

	"github.com/dolthub/go-mysql-server/sql"
	"github.com/dolthub/go-mysql-server/sql/memo"
)

// ChoiceCoster is a memo.Coster that lets the explorer force any alternative the optimizer's memo
// contains. A choice point is a costed memo group, identified by the order in which groups are
// first costed during one analysis (the memo costs groups in a deterministic depth-first order;
// every statement scope builds its own memo, so group ids alone are not unique). With no forced
// choice it delegates to the default coster and records the arity of every choice point.
type ChoiceCoster struct {
	Def memo.Coster
	// per analysis
	seen  map[*memo.ExprGroup]int
	Arity []int    // alternatives per choice point (in first-costed order)
	Kinds []string // Go type of each alternative, per choice point: Kinds[ord] = "MergeJoin|HashJoin|…"
	// Force: choice point ordinal -> position; others use the default cost.
	Force map[int]int
}

func NewChoiceCoster() *ChoiceCoster {
	return &ChoiceCoster{Def: memo.NewDefaultCoster()}
}

// Reset must be called before each analysis.
func (c *ChoiceCoster) Reset(force map[int]int) {
	c.seen = map[*memo.ExprGroup]int{}
	c.Arity = c.Arity[:0]
	c.Kinds = c.Kinds[:0]
	c.Force = force
}

func (c *ChoiceCoster) EstimateCost(ctx *sql.Context, n memo.RelExpr, s sql.StatsProvider) (float64, error) {
	g := n.Group()
	ord, ok := c.seen[g]
	if !ok {
		ord = len(c.seen)
		c.seen[g] = ord
		k := 0
		kinds := ""
		for x := g.First; x != nil; x = x.Next() {
			k++
			kinds += fmt.Sprintf("%T|", x)
		}
		c.Arity = append(c.Arity, k)
		c.Kinds = append(c.Kinds, kinds)
	}
	if pos, forced := c.Force[ord]; forced {
		p := 0
		for x := g.First; x != nil && x != n; x = x.Next() {
			p++
		}
		if p == pos {
			return 0, nil
		}
		return 1e12, nil
	}
	return c.Def.EstimateCost(ctx, n, s)
}
