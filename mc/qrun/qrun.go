// Package qrun is the shared driver of the query-level checks (C01, C02, C05, C06, C09): it loads
// every database of the standard family into its own engine (built once per worker; all queries
// are read-only), enumerates Q(d) sharded by query index, and hands each (query, database) to the
// property's oracle. It also provides result normalisation and the deterministic minimisation
// that turns a failing case into a signature.
package qrun

import (
	"fmt"
	"sort"
	"strings"

	"verif/mc/core"
	"verif/mc/eng"
	"verif/mc/qgen"
	"verif/mc/sqlref"
)

// Loaded is a database of the family loaded into a real engine, plus its reference twin.
type Loaded struct {
	Spec qgen.DBSpec
	Eng  *eng.Engine
	Sess *eng.Session
	Ref  *sqlref.DB
	// Aux is per-database state of a check (C01: the ChoiceCoster installed in Eng); it lives and dies
	// with the Loaded value
	Aux any
}

func Load(spec qgen.DBSpec) *Loaded {
	e := eng.New()
	s := e.NewSession("root")
	for _, q := range spec.DDL() {
		s.MustExec(q)
	}
	return &Loaded{Spec: spec, Eng: e, Sess: s, Ref: spec.Ref()}
}

// NormRows converts an engine result into comparable row keys (same form as sqlref Row.Key).
func NormRows(r *eng.Result) []string {
	out := make([]string, len(r.Rows))
	for i, row := range r.Rows {
		parts := make([]string, len(row))
		for j, v := range row {
			parts[j] = sqlref.ParseEngineValue(eng.FormatValue(v))
		}
		out[i] = "(" + strings.Join(parts, ",") + ")"
	}
	return out
}

func Sorted(a []string) []string {
	b := append([]string{}, a...)
	sort.Strings(b)
	return b
}

// DiffKind classifies a multiset difference.
func DiffKind(got, want []string) string {
	g, w := map[string]int{}, map[string]int{}
	for _, x := range got {
		g[x]++
	}
	for _, x := range want {
		w[x]++
	}
	missing, extra := false, false
	for k, n := range w {
		if g[k] < n {
			missing = true
		}
	}
	for k, n := range g {
		if w[k] < n {
			extra = true
		}
	}
	switch {
	case missing && extra:
		return "wrong-value"
	case missing:
		return "missing-rows"
	case extra:
		return "extra-rows"
	}
	return "wrong-order"
}

func Equal(a, b []string) bool {
	if len(a) != len(b) {
		return false
	}
	for i := range a {
		if a[i] != b[i] {
			return false
		}
	}
	return true
}

// Case is one (query, database) pair.
type Case struct {
	G  qgen.GQ
	DB *Loaded
}

// Witness is the replayable form of a case.
type Witness struct {
	SQL    string      `json:"sql"`
	Tags   []string    `json:"tags"`
	DB     string      `json:"db"`
	Layout string      `json:"layout"`
	DDL    []string    `json:"ddl"`
	Spec   qgen.DBSpec `json:"spec"`
}

func (c Case) Witness() Witness {
	return Witness{SQL: c.G.SQL(), Tags: c.G.Tags, DB: c.DB.Spec.Name(), Layout: c.DB.Spec.Layout, DDL: c.DB.Spec.DDL(), Spec: c.DB.Spec}
}

// Failure is what an oracle reports for a case.
type Failure struct {
	Clause, Kind       string
	Observed, Expected string
	Extra              map[string]string // extra subject fields
}

// Oracle judges one case; nil = holds. skip=true = outside the domain (unsupported construct).
type Oracle func(c Case) (f *Failure, skip bool, nontrivial bool)

type Config struct {
	Depth     int
	Rep       bool
	MaxTables int
	// DBLevel for queries with one slot / with more slots.
	DBLevelSingle, DBLevelMulti int
	Oracle                      Oracle
	// Subject, when set, replaces the default classifying coordinates of a minimised failure.
	Subject func(c Case, f *Failure) map[string]string
	// DBFilter, when set, selects databases for multi-slot queries.
	DBFilter func(g qgen.GQ, s qgen.DBSpec) bool
	// Filter, when set, selects which generated queries take part.
	Filter func(g qgen.GQ) bool
}

// Run enumerates and checks. Queries are sharded by index across workers.
func Run(r *core.Run, cfg Config) {
	maxLevel := cfg.DBLevelSingle
	if cfg.DBLevelMulti > maxLevel {
		maxLevel = cfg.DBLevelMulti
	}
	specsSingle := qgen.Databases(cfg.DBLevelSingle)
	specsMulti := qgen.Databases(cfg.DBLevelMulti)
	loaded := map[string]*Loaded{}
	get := func(s qgen.DBSpec) *Loaded {
		k := s.Name()
		if l, ok := loaded[k]; ok {
			return l
		}
		l := Load(s)
		loaded[k] = l
		return l
	}
	// databases reached while minimising a failing case (rows removed) are cached separately and
	// the cache is dropped when it grows: a tree with a frequent known finding minimises thousands
	// of cases, and an engine per reduced database kept forever exhausted the machine's memory
	minLoaded := map[string]*Loaded{}
	getMin := func(s qgen.DBSpec) *Loaded {
		k := s.Name()
		if l, ok := loaded[k]; ok {
			return l
		}
		if l, ok := minLoaded[k]; ok {
			return l
		}
		if len(minLoaded) >= 64 {
			minLoaded = map[string]*Loaded{}
		}
		l := Load(s)
		minLoaded[k] = l
		return l
	}
	r.Info("databases_single_slot", len(specsSingle))
	r.Info("databases_multi_slot", len(specsMulti))
	// index of single-slot queries for minimisation
	single := map[string]qgen.GQ{}
	qgen.Enumerate(1, qgen.Options{Rep: cfg.Rep, MaxTables: cfg.MaxTables}, func(g qgen.GQ) {
		single[strings.Join(g.Tags, "\x00")] = g
	})
	idx := int64(-1)
	nq := int64(0)
	stopped := false
	qgen.Enumerate(cfg.Depth, qgen.Options{Rep: cfg.Rep, MaxTables: cfg.MaxTables}, func(g qgen.GQ) {
		if cfg.Filter != nil && !cfg.Filter(g) {
			return
		}
		idx++
		nq++
		if stopped || !r.Mine(idx) {
			return
		}
		if r.Expired() {
			r.Capped(fmt.Sprintf("time budget reached after %d of this worker's queries", idx))
			stopped = true
			return
		}
		specs := specsMulti
		if len(g.Tags) <= 1 {
			specs = specsSingle
		}
		r.Count("queries", 1)
		for _, sp := range specs {
			if cfg.DBFilter != nil && !cfg.DBFilter(g, sp) {
				continue
			}
			c := Case{G: g, DB: get(sp)}
			r.Eval()
			f, skip, nt := cfg.Oracle(c)
			if skip {
				r.Count("skipped_unsupported", 1)
				continue
			}
			if nt {
				r.NonTrivial(g.SQL() + "|" + sp.Name())
				for _, cl := range g.Classes() {
					r.Outcome(cl)
				}
			}
			if f == nil {
				if nt && r.WantSample() && len(g.Tags) >= 2 {
					r.Sample(map[string]any{"sql": g.SQL(), "tags": g.Tags, "db": sp.Name()})
				}
				continue
			}
			mc, mf := Minimise(c, f, cfg.Oracle, single, getMin)
			subj := Subject(mc, mf)
			if cfg.Subject != nil {
				subj = cfg.Subject(mc, mf)
			}
			r.Violate(core.Violation{Clause: mf.Clause, Kind: mf.Kind, Subject: subj, Witness: core.J(mc.Witness()), Observed: mf.Observed, Expected: mf.Expected})
		}
	})
	r.Info("queries_in_space", nq)
}

// Minimise drops feature slots (when the single-slot query alone fails the same clause) and then
// rows of the database, one at a time in a fixed order, while the same clause/kind still fails.
func Minimise(c Case, f *Failure, o Oracle, single map[string]qgen.GQ, get func(qgen.DBSpec) *Loaded) (Case, *Failure) {
	same := func(nf *Failure) bool { return nf != nil && nf.Clause == f.Clause }
	if len(c.G.Tags) > 1 {
		for _, t := range c.G.Tags {
			if g, ok := single[t]; ok {
				nc := Case{G: g, DB: c.DB}
				if nf, skip, _ := o(nc); !skip && same(nf) {
					c, f = nc, nf
					break
				}
			}
		}
	}
	for changed := true; changed; {
		changed = false
		for _, t := range []string{"t", "u", "v"} {
			for i := range c.DB.Spec.T[t] {
				ns := c.DB.Spec.Without(t, i)
				nl := Load(ns)
				nc := Case{G: c.G, DB: nl}
				if nf, skip, _ := o(nc); !skip && same(nf) {
					c, f, changed = nc, nf, true
					break
				}
			}
			if changed {
				break
			}
		}
	}
	return c, f
}

// ReplayDDL rebuilds a database from a witness.
func ReplayDDL(ddl []string) (*eng.Engine, *eng.Session, error) {
	e := eng.New()
	s := e.NewSession("root")
	for _, q := range ddl {
		if r := s.Exec(q); r.Err != nil {
			return nil, nil, fmt.Errorf("%s: %v", q, r.Err)
		}
	}
	return e, s, nil
}

// FindQuery re-generates the query of a witness (the reference evaluator needs the AST).
func FindQuery(w Witness, depth int, maxTables int) (qgen.GQ, bool) {
	var found qgen.GQ
	ok := false
	for _, rep := range []bool{true, false} {
		qgen.Enumerate(depth, qgen.Options{Rep: rep, MaxTables: maxTables}, func(g qgen.GQ) {
			if !ok && g.SQL() == w.SQL {
				found, ok = g, true
			}
		})
		if ok {
			break
		}
	}
	return found, ok
}

// UnsupportedProfile lists the constructs of the grammar that the engine is known to reject (a
// committed, hand-reviewed profile — never written at run time): feature-class prefix -> error
// class. A rejection of such a construct with that class puts the case outside the domain; any
// other rejection is judged by the oracle.
var UnsupportedProfile = map[string]string{
	"sub:any": "parse", // `x op ANY (subquery)` is not in the vitess grammar used here
	"sub:all": "parse", // `x op ALL (subquery)`
}

// Unsupported reports whether err on query g falls under the profile.
func Unsupported(g qgen.GQ, err error) bool {
	if err == nil {
		return false
	}
	cl := eng.ErrClass(err)
	if cl == "unsupported" {
		return true
	}
	for _, c := range g.Classes() {
		for pre, want := range UnsupportedProfile {
			if strings.HasPrefix(c, pre) && cl == want {
				return true
			}
		}
	}
	return false
}

var joinOps = []string{"LeftOuterMergeJoin", "MergeJoin", "LeftOuterHashJoinExcludeNulls", "LeftOuterHashJoin", "HashJoin", "LeftOuterLookupJoin", "SemiLookupJoin", "AntiLookupJoin", "LookupJoin", "RangeHeapJoin", "LateralCrossJoin", "CrossHashJoin", "SemiJoin", "AntiJoinIncludingNulls", "AntiJoin", "CrossJoin", "LeftOuterJoin", "InnerJoin", "IndexedTableAccess", "TopN", "HashIn"}

// PlanOps extracts the (join/access) operator kinds of a plan text, sorted, "+"-joined.
func PlanOps(plan string) string {
	found := map[string]bool{}
	rest := plan
	for _, op := range joinOps { // longest names first within each family
		if strings.Contains(rest, op) {
			found[op] = true
			rest = strings.ReplaceAll(rest, op, "#")
		}
	}
	var out []string
	for k := range found {
		out = append(out, k)
	}
	sort.Strings(out)
	return strings.Join(out, "+")
}

// Subject computes the classifying coordinates of a minimised failing case: the full feature
// tags, the layout class, whether the minimal database still contains a NULL, and the operator
// kinds of the engine's plan.
func Subject(c Case, f *Failure) map[string]string {
	nulls := "no"
	for _, rows := range c.DB.Spec.T {
		for _, r := range rows {
			if r[0] == nil || r[1] == nil {
				nulls = "yes"
			}
		}
	}
	plan, _ := c.DB.Sess.Plan(c.G.SQL())
	subj := map[string]string{"features": strings.Join(c.G.Tags, "+"), "layout": c.DB.Spec.LayoutClass(), "layout_name": c.DB.Spec.Layout, "nulls": nulls, "plan": PlanOps(plan)}
	for k, v := range f.Extra {
		subj[k] = v
	}
	return subj
}
