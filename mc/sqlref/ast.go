// Package sqlref is the reference side of the query-level checks: a small SQL AST that renders
// itself to SQL text and an evaluator that implements the textbook (definitional) semantics of the
// fragment — three-valued logic, NULL-aware IN/NOT IN, outer-join padding, grouping and
// aggregates, DISTINCT, set operations, ORDER BY/LIMIT — by nested loops with no optimisation.
// The generator emits ASTs; the engine gets the rendered text, the evaluator the AST, so the
// reference never parses SQL.
package sqlref

import (
	"fmt"
	"strings"
)

// Expr is an expression node.
type Expr interface {
	SQL() string
}

type Col struct{ T, C string } // table alias, column

func (c Col) SQL() string {
	if c.T == "" {
		return c.C
	}
	return c.T + "." + c.C
}

type Const struct{ V Value }

func (c Const) SQL() string { return c.V.SQL() }

type Cmp struct {
	Op   string // = <> < <= > >= <=>
	L, R Expr
}

func (c Cmp) SQL() string { return "(" + c.L.SQL() + " " + c.Op + " " + c.R.SQL() + ")" }

type IsNull struct {
	E   Expr
	Not bool
}

func (e IsNull) SQL() string {
	if e.Not {
		return "(" + e.E.SQL() + " IS NOT NULL)"
	}
	return "(" + e.E.SQL() + " IS NULL)"
}

// IsTruth is `e IS [NOT] TRUE|FALSE|NULL(unknown)` on a boolean expression.
type IsTruth struct {
	E    Expr
	What string // TRUE, FALSE, NULL
	Not  bool
}

func (e IsTruth) SQL() string {
	n := ""
	if e.Not {
		n = "NOT "
	}
	return "(" + e.E.SQL() + " IS " + n + e.What + ")"
}

type InList struct {
	E    Expr
	List []Expr
	Not  bool
}

func (e InList) SQL() string {
	parts := make([]string, len(e.List))
	for i, x := range e.List {
		parts[i] = x.SQL()
	}
	n := ""
	if e.Not {
		n = "NOT "
	}
	return "(" + e.E.SQL() + " " + n + "IN (" + strings.Join(parts, ", ") + "))"
}

type Between struct {
	E, Lo, Hi Expr
	Not       bool
}

func (e Between) SQL() string {
	n := ""
	if e.Not {
		n = "NOT "
	}
	return "(" + e.E.SQL() + " " + n + "BETWEEN " + e.Lo.SQL() + " AND " + e.Hi.SQL() + ")"
}

type And struct{ L, R Expr }

func (e And) SQL() string { return "(" + e.L.SQL() + " AND " + e.R.SQL() + ")" }

type Or struct{ L, R Expr }

func (e Or) SQL() string { return "(" + e.L.SQL() + " OR " + e.R.SQL() + ")" }

type Not struct{ E Expr }

func (e Not) SQL() string { return "(NOT " + e.E.SQL() + ")" }

type Arith struct {
	Op   string // + - *
	L, R Expr
}

func (e Arith) SQL() string { return "(" + e.L.SQL() + " " + e.Op + " " + e.R.SQL() + ")" }

// Func is a small set of NULL-handling scalar functions: COALESCE, IFNULL, NULLIF, IF, ABS, CASE
// is separate.
type Func struct {
	Name string
	Args []Expr
}

func (e Func) SQL() string {
	parts := make([]string, len(e.Args))
	for i, x := range e.Args {
		parts[i] = x.SQL()
	}
	return e.Name + "(" + strings.Join(parts, ", ") + ")"
}

// Case is CASE WHEN c THEN v [ELSE e] END.
type Case struct {
	When, Then, Else Expr
}

func (e Case) SQL() string {
	s := "(CASE WHEN " + e.When.SQL() + " THEN " + e.Then.SQL()
	if e.Else != nil {
		s += " ELSE " + e.Else.SQL()
	}
	return s + " END)"
}

type Exists struct {
	Q   *Query
	Not bool
}

func (e Exists) SQL() string {
	n := ""
	if e.Not {
		n = "NOT "
	}
	return "(" + n + "EXISTS (" + e.Q.SQL() + "))"
}

type InSub struct {
	E   Expr
	Q   *Query
	Not bool
}

func (e InSub) SQL() string {
	n := ""
	if e.Not {
		n = "NOT "
	}
	return "(" + e.E.SQL() + " " + n + "IN (" + e.Q.SQL() + "))"
}

// QuantCmp is `e op ANY|ALL (subquery)`.
type QuantCmp struct {
	Op    string
	Quant string // ANY, ALL
	E     Expr
	Q     *Query
}

func (e QuantCmp) SQL() string {
	return "(" + e.E.SQL() + " " + e.Op + " " + e.Quant + " (" + e.Q.SQL() + "))"
}

type ScalarSub struct{ Q *Query }

func (e ScalarSub) SQL() string { return "(" + e.Q.SQL() + ")" }

// Agg is an aggregate call; only valid in the select list / HAVING of a grouped query.
type Agg struct {
	Fn       string // COUNT SUM MIN MAX AVG ; Arg nil = COUNT(*)
	Arg      Expr
	Distinct bool
}

func (e Agg) SQL() string {
	if e.Arg == nil {
		return "COUNT(*)"
	}
	d := ""
	if e.Distinct {
		d = "DISTINCT "
	}
	return e.Fn + "(" + d + e.Arg.SQL() + ")"
}

// ---------------------------------------------------------------- queries

type JoinKind int

const (
	JoinNone  JoinKind = iota // first table
	JoinInner                 // JOIN ... ON
	JoinLeft
	JoinRight
	JoinCross // CROSS JOIN (no ON)
	JoinComma // , (no ON)
)

type TableRef struct {
	Name  string // table name
	Alias string // alias ("" = name)
	Kind  JoinKind
	On    Expr
	// Sub, when non-nil, is a derived table (subquery in FROM) aliased Alias.
	Sub *Query
	// Using CTE: Name refers to a WITH entry of the query.
}

func (t TableRef) Ref() string {
	if t.Alias != "" {
		return t.Alias
	}
	return t.Name
}

type SelItem struct {
	E     Expr
	Alias string
}

type OrderItem struct {
	E    Expr
	Desc bool
}

type CTE struct {
	Name string
	Q    *Query
}

type Query struct {
	With     []CTE
	From     []TableRef
	Where    Expr
	GroupBy  []Expr
	Star     bool // SELECT *
	Select   []SelItem
	Having   Expr
	Distinct bool
	// Set operation with Right (applied before ORDER BY / LIMIT).
	SetOp   string // "", UNION, INTERSECT, EXCEPT
	SetAll  bool
	Right   *Query
	OrderBy []OrderItem
	Limit   int // -1 = none
	Offset  int // 0 = none
	// Hint is an optimizer hint comment placed after SELECT (ignored by the evaluator).
	Hint string
}

func NewQuery() *Query { return &Query{Limit: -1} }

func (q *Query) selectList() string {
	if q.Star {
		return "*"
	}
	parts := make([]string, len(q.Select))
	for i, s := range q.Select {
		parts[i] = s.E.SQL()
		if s.Alias != "" {
			parts[i] += " AS " + s.Alias
		}
	}
	return strings.Join(parts, ", ")
}

func (q *Query) coreSQL() string {
	var sb strings.Builder
	sb.WriteString("SELECT ")
	if q.Hint != "" {
		sb.WriteString("/*+ " + q.Hint + " */ ")
	}
	if q.Distinct {
		sb.WriteString("DISTINCT ")
	}
	sb.WriteString(q.selectList())
	if len(q.From) > 0 {
		sb.WriteString(" FROM ")
		for i, t := range q.From {
			name := t.Name
			if t.Sub != nil {
				name = "(" + t.Sub.SQL() + ")"
			}
			if t.Alias != "" && (t.Sub != nil || t.Alias != t.Name) {
				name += " AS " + t.Alias
			}
			switch {
			case i == 0:
				sb.WriteString(name)
			case t.Kind == JoinInner:
				sb.WriteString(" JOIN " + name + " ON " + t.On.SQL())
			case t.Kind == JoinLeft:
				sb.WriteString(" LEFT JOIN " + name + " ON " + t.On.SQL())
			case t.Kind == JoinRight:
				sb.WriteString(" RIGHT JOIN " + name + " ON " + t.On.SQL())
			case t.Kind == JoinCross:
				sb.WriteString(" CROSS JOIN " + name)
			case t.Kind == JoinComma:
				sb.WriteString(", " + name)
			}
		}
	}
	if q.Where != nil {
		sb.WriteString(" WHERE " + q.Where.SQL())
	}
	if len(q.GroupBy) > 0 {
		parts := make([]string, len(q.GroupBy))
		for i, g := range q.GroupBy {
			parts[i] = g.SQL()
		}
		sb.WriteString(" GROUP BY " + strings.Join(parts, ", "))
	}
	if q.Having != nil {
		sb.WriteString(" HAVING " + q.Having.SQL())
	}
	return sb.String()
}

func (q *Query) SQL() string {
	var sb strings.Builder
	if len(q.With) > 0 {
		parts := make([]string, len(q.With))
		for i, c := range q.With {
			parts[i] = c.Name + " AS (" + c.Q.SQL() + ")"
		}
		sb.WriteString("WITH " + strings.Join(parts, ", ") + " ")
	}
	if q.SetOp != "" {
		all := ""
		if q.SetAll {
			all = " ALL"
		}
		sb.WriteString("(" + q.coreSQL() + ") " + q.SetOp + all + " (" + q.Right.SQL() + ")")
	} else {
		sb.WriteString(q.coreSQL())
	}
	if len(q.OrderBy) > 0 {
		parts := make([]string, len(q.OrderBy))
		for i, o := range q.OrderBy {
			parts[i] = o.E.SQL()
			if o.Desc {
				parts[i] += " DESC"
			}
		}
		sb.WriteString(" ORDER BY " + strings.Join(parts, ", "))
	}
	if q.Limit >= 0 {
		sb.WriteString(fmt.Sprintf(" LIMIT %d", q.Limit))
		if q.Offset > 0 {
			sb.WriteString(fmt.Sprintf(" OFFSET %d", q.Offset))
		}
	}
	return sb.String()
}
