package sqlref

import (
	"fmt"
	"math/big"
	"sort"
	"strings"
)

// Table is a named relation of the reference database.
type Table struct {
	Name string
	Cols []string
	Rows []Row
}

// DB is the reference database.
type DB struct {
	Tables map[string]*Table
}

func NewDB() *DB { return &DB{Tables: map[string]*Table{}} }

func (db *DB) Add(t *Table) { db.Tables[t.Name] = t }

// Result of evaluating a query.
type Result struct {
	Cols    []string
	Rows    []Row
	Ordered bool // rows are in a defined order (ORDER BY present)
}

// EvalError is a reference-level error (the engine must fail too, with a matching class).
type EvalError struct{ Class string }

func (e *EvalError) Error() string { return "sqlref: " + e.Class }

// binding of one FROM item in a row environment
type binding struct {
	alias string
	cols  []string
	row   Row // nil = NULL-padded
}

type env struct {
	binds  []binding
	parent *env
	group  []*env // rows of the current group (aggregate evaluation)
	db     *DB
	ctes   map[string]*Result
	// sel maps select-list aliases to values (ORDER BY / HAVING may refer to them)
	sel map[string]Value
}

func (e *env) lookup(c Col) (Value, bool) {
	for cur := e; cur != nil; cur = cur.parent {
		if c.T == "" && cur.sel != nil {
			if v, ok := cur.sel[c.C]; ok {
				return v, true
			}
		}
		for _, b := range cur.binds {
			if c.T != "" && b.alias != c.T {
				continue
			}
			for i, n := range b.cols {
				if n == c.C {
					if b.row == nil {
						return Null, true
					}
					return b.row[i], true
				}
			}
		}
	}
	return Null, false
}

func (e *env) truth(x Expr) Truth { return TruthOf(e.eval(x)) }

func (e *env) eval(x Expr) Value {
	switch n := x.(type) {
	case Col:
		v, ok := e.lookup(n)
		if !ok {
			panic(fmt.Sprintf("sqlref: unresolved column %s", n.SQL()))
		}
		return v
	case Const:
		return n.V
	case Cmp:
		return cmpOp(n.Op, e.eval(n.L), e.eval(n.R)).Value()
	case IsNull:
		v := e.eval(n.E)
		return Bool(v.Null != n.Not)
	case IsTruth:
		t := e.truth(n.E)
		var r bool
		switch n.What {
		case "TRUE":
			r = t == True
		case "FALSE":
			r = t == False
		default:
			r = t == Unknown
		}
		return Bool(r != n.Not)
	case InList:
		v := e.eval(n.E)
		res := False
		for _, it := range n.List {
			res = or3(res, cmpOp("=", v, e.eval(it)))
		}
		if n.Not {
			res = not3(res)
		}
		return res.Value()
	case Between:
		v := e.eval(n.E)
		t := and3(cmpOp(">=", v, e.eval(n.Lo)), cmpOp("<=", v, e.eval(n.Hi)))
		if n.Not {
			t = not3(t)
		}
		return t.Value()
	case And:
		return and3(e.truth(n.L), e.truth(n.R)).Value()
	case Or:
		return or3(e.truth(n.L), e.truth(n.R)).Value()
	case Not:
		return not3(e.truth(n.E)).Value()
	case Arith:
		a, b := e.eval(n.L), e.eval(n.R)
		if a.Null || b.Null {
			return Null
		}
		r := new(big.Rat)
		switch n.Op {
		case "+":
			r.Add(num(a), num(b))
		case "-":
			r.Sub(num(a), num(b))
		case "*":
			r.Mul(num(a), num(b))
		default:
			panic("sqlref: bad arithmetic operator " + n.Op)
		}
		return Rat(r)
	case Func:
		return e.evalFunc(n)
	case Case:
		if e.truth(n.When) == True {
			return e.eval(n.Then)
		}
		if n.Else != nil {
			return e.eval(n.Else)
		}
		return Null
	case Exists:
		r := e.subquery(n.Q)
		return Bool((len(r.Rows) > 0) != n.Not)
	case InSub:
		v := e.eval(n.E)
		r := e.subquery(n.Q)
		res := False
		for _, row := range r.Rows {
			res = or3(res, cmpOp("=", v, row[0]))
		}
		if n.Not {
			res = not3(res)
		}
		return res.Value()
	case QuantCmp:
		v := e.eval(n.E)
		r := e.subquery(n.Q)
		if n.Quant == "ANY" {
			res := False
			for _, row := range r.Rows {
				res = or3(res, cmpOp(n.Op, v, row[0]))
			}
			return res.Value()
		}
		res := True
		for _, row := range r.Rows {
			res = and3(res, cmpOp(n.Op, v, row[0]))
		}
		return res.Value()
	case ScalarSub:
		r := e.subquery(n.Q)
		if len(r.Rows) > 1 {
			panic(&EvalError{Class: "subquery-multiple-rows"})
		}
		if len(r.Rows) == 0 {
			return Null
		}
		return r.Rows[0][0]
	case Agg:
		return e.evalAgg(n)
	}
	panic(fmt.Sprintf("sqlref: unknown expression %T", x))
}

func (e *env) evalFunc(f Func) Value {
	args := make([]Value, len(f.Args))
	for i, a := range f.Args {
		args[i] = e.eval(a)
	}
	switch strings.ToUpper(f.Name) {
	case "COALESCE":
		for _, a := range args {
			if !a.Null {
				return a
			}
		}
		return Null
	case "IFNULL":
		if !args[0].Null {
			return args[0]
		}
		return args[1]
	case "NULLIF":
		if cmpOp("=", args[0], args[1]) == True {
			return Null
		}
		return args[0]
	case "IF":
		if TruthOf(args[0]) == True {
			return args[1]
		}
		return args[2]
	case "ABS":
		if args[0].Null {
			return Null
		}
		return Rat(new(big.Rat).Abs(num(args[0])))
	case "ISNULL":
		return Bool(args[0].Null)
	case "GREATEST", "LEAST":
		for _, a := range args {
			if a.Null {
				return Null
			}
		}
		best := args[0]
		for _, a := range args[1:] {
			c := compare(a, best)
			if (f.Name == "GREATEST" && c > 0) || (f.Name == "LEAST" && c < 0) {
				best = a
			}
		}
		return best
	}
	panic("sqlref: unknown function " + f.Name)
}

func (e *env) evalAgg(a Agg) Value {
	rows := e.group
	if rows == nil {
		panic("sqlref: aggregate outside a grouped context")
	}
	if a.Arg == nil {
		return Int(int64(len(rows)))
	}
	var vals []Value
	seen := map[string]bool{}
	for _, r := range rows {
		v := r.eval(a.Arg)
		if v.Null {
			continue
		}
		if a.Distinct {
			k := Row{v}.groupKey()
			if seen[k] {
				continue
			}
			seen[k] = true
		}
		vals = append(vals, v)
	}
	switch strings.ToUpper(a.Fn) {
	case "COUNT":
		return Int(int64(len(vals)))
	case "SUM", "AVG":
		if len(vals) == 0 {
			return Null
		}
		s := new(big.Rat)
		for _, v := range vals {
			s.Add(s, num(v))
		}
		if strings.ToUpper(a.Fn) == "AVG" {
			s.Quo(s, new(big.Rat).SetInt64(int64(len(vals))))
		}
		return Rat(s)
	case "MIN", "MAX":
		if len(vals) == 0 {
			return Null
		}
		best := vals[0]
		for _, v := range vals[1:] {
			c := compare(v, best)
			if (strings.ToUpper(a.Fn) == "MAX" && c > 0) || (strings.ToUpper(a.Fn) == "MIN" && c < 0) {
				best = v
			}
		}
		return best
	}
	panic("sqlref: unknown aggregate " + a.Fn)
}

func (e *env) subquery(q *Query) *Result {
	return evalQuery(q, e.db, e, e.ctes)
}

// Eval evaluates q over db. A reference-level error is returned as *EvalError.
func Eval(q *Query, db *DB) (res *Result, err error) {
	defer func() {
		if x := recover(); x != nil {
			if ee, ok := x.(*EvalError); ok {
				err = ee
				return
			}
			panic(x)
		}
	}()
	return evalQuery(q, db, nil, nil), nil
}

func hasAgg(x Expr) bool {
	switch n := x.(type) {
	case nil:
		return false
	case Agg:
		return true
	case Cmp:
		return hasAgg(n.L) || hasAgg(n.R)
	case And:
		return hasAgg(n.L) || hasAgg(n.R)
	case Or:
		return hasAgg(n.L) || hasAgg(n.R)
	case Not:
		return hasAgg(n.E)
	case Arith:
		return hasAgg(n.L) || hasAgg(n.R)
	case IsNull:
		return hasAgg(n.E)
	case IsTruth:
		return hasAgg(n.E)
	case InList:
		if hasAgg(n.E) {
			return true
		}
		for _, i := range n.List {
			if hasAgg(i) {
				return true
			}
		}
	case Between:
		return hasAgg(n.E) || hasAgg(n.Lo) || hasAgg(n.Hi)
	case Func:
		for _, a := range n.Args {
			if hasAgg(a) {
				return true
			}
		}
	case Case:
		return hasAgg(n.When) || hasAgg(n.Then) || hasAgg(n.Else)
	}
	return false
}

func evalQuery(q *Query, db *DB, outer *env, ctes map[string]*Result) *Result {
	if len(q.With) > 0 {
		nc := map[string]*Result{}
		for k, v := range ctes {
			nc[k] = v
		}
		for _, c := range q.With {
			nc[c.Name] = evalQuery(c.Q, db, outer, nc)
		}
		ctes = nc
	}
	res := evalCore(q, db, outer, ctes)
	if q.SetOp != "" {
		right := evalQuery(q.Right, db, outer, ctes)
		res = setOp(q.SetOp, q.SetAll, res, right)
	}
	if len(q.OrderBy) > 0 {
		// ORDER BY over output columns (by alias/name) — evaluated on result rows
		rows := res.Rows
		keys := make([]Row, len(rows))
		for i, r := range rows {
			e := &env{binds: []binding{{alias: "", cols: res.Cols, row: r}}, db: db, ctes: ctes, parent: outer}
			k := make(Row, len(q.OrderBy))
			for j, o := range q.OrderBy {
				k[j] = e.eval(o.E)
			}
			keys[i] = k
		}
		idx := make([]int, len(rows))
		for i := range idx {
			idx[i] = i
		}
		sort.SliceStable(idx, func(a, b int) bool {
			for j, o := range q.OrderBy {
				c := orderCmp(keys[idx[a]][j], keys[idx[b]][j])
				if c != 0 {
					if o.Desc {
						return c > 0
					}
					return c < 0
				}
			}
			return false
		})
		sorted := make([]Row, len(rows))
		for i, k := range idx {
			sorted[i] = rows[k]
		}
		res = &Result{Cols: res.Cols, Rows: sorted, Ordered: true}
	}
	if q.Limit >= 0 || q.Offset > 0 {
		rows := res.Rows
		off := q.Offset
		if off > len(rows) {
			off = len(rows)
		}
		rows = rows[off:]
		if q.Limit >= 0 && q.Limit < len(rows) {
			rows = rows[:q.Limit]
		}
		res = &Result{Cols: res.Cols, Rows: rows, Ordered: res.Ordered}
	}
	return res
}

// orderCmp: NULL sorts lowest.
func orderCmp(a, b Value) int {
	switch {
	case a.Null && b.Null:
		return 0
	case a.Null:
		return -1
	case b.Null:
		return 1
	}
	return compare(a, b)
}

func relation(t TableRef, db *DB, outer *env, ctes map[string]*Result) (cols []string, rows []Row) {
	if t.Sub != nil {
		r := evalQuery(t.Sub, db, outer, ctes)
		return r.Cols, r.Rows
	}
	if c, ok := ctes[t.Name]; ok {
		return c.Cols, c.Rows
	}
	tb, ok := db.Tables[t.Name]
	if !ok {
		panic("sqlref: unknown table " + t.Name)
	}
	return tb.Cols, tb.Rows
}

func evalCore(q *Query, db *DB, outer *env, ctes map[string]*Result) *Result {
	// FROM: left-deep joins
	var cur []*env
	if len(q.From) == 0 {
		cur = []*env{{parent: outer, db: db, ctes: ctes}}
	}
	var schema []binding // aliases/cols so far (rows unset)
	for i, t := range q.From {
		cols, rows := relation(t, db, outer, ctes)
		b := binding{alias: t.Ref(), cols: cols}
		if i == 0 {
			for _, r := range rows {
				nb := b
				nb.row = r
				cur = append(cur, &env{binds: []binding{nb}, parent: outer, db: db, ctes: ctes})
			}
			schema = append(schema, b)
			continue
		}
		var next []*env
		mk := func(l *env, r Row) *env {
			nb := b
			nb.row = r
			binds := append(append([]binding{}, l.binds...), nb)
			return &env{binds: binds, parent: outer, db: db, ctes: ctes}
		}
		switch t.Kind {
		case JoinInner, JoinCross, JoinComma:
			for _, l := range cur {
				for _, r := range rows {
					c := mk(l, r)
					if t.Kind != JoinInner || c.truth(t.On) == True {
						next = append(next, c)
					}
				}
			}
		case JoinLeft:
			for _, l := range cur {
				matched := false
				for _, r := range rows {
					c := mk(l, r)
					if c.truth(t.On) == True {
						next = append(next, c)
						matched = true
					}
				}
				if !matched {
					next = append(next, mk(l, nil))
				}
			}
		case JoinRight:
			for _, r := range rows {
				matched := false
				for _, l := range cur {
					c := mk(l, r)
					if c.truth(t.On) == True {
						next = append(next, c)
						matched = true
					}
				}
				if !matched {
					var padded []binding
					for _, sb := range schema {
						padded = append(padded, binding{alias: sb.alias, cols: sb.cols, row: nil})
					}
					nb := b
					nb.row = r
					next = append(next, &env{binds: append(padded, nb), parent: outer, db: db, ctes: ctes})
				}
			}
		}
		cur = next
		schema = append(schema, b)
	}
	// WHERE
	if q.Where != nil {
		var f []*env
		for _, e := range cur {
			if e.truth(q.Where) == True {
				f = append(f, e)
			}
		}
		cur = f
	}
	// output columns
	var outCols []string
	var items []SelItem
	if q.Star {
		for _, b := range schema {
			for _, c := range b.cols {
				outCols = append(outCols, c)
				items = append(items, SelItem{E: Col{T: b.alias, C: c}})
			}
		}
	} else {
		for _, s := range q.Select {
			name := s.Alias
			if name == "" {
				if c, ok := s.E.(Col); ok {
					name = c.C
				} else {
					name = s.E.SQL()
				}
			}
			outCols = append(outCols, name)
			items = append(items, s)
		}
	}
	grouped := len(q.GroupBy) > 0 || q.Having != nil
	for _, it := range items {
		grouped = grouped || hasAgg(it.E)
	}
	var out []Row
	project := func(e *env) Row {
		r := make(Row, len(items))
		for i, it := range items {
			r[i] = e.eval(it.E)
		}
		return r
	}
	if !grouped {
		for _, e := range cur {
			out = append(out, project(e))
		}
	} else {
		var order []string
		groups := map[string][]*env{}
		if len(q.GroupBy) == 0 {
			order = []string{""}
			groups[""] = cur
		} else {
			for _, e := range cur {
				k := make(Row, len(q.GroupBy))
				for i, g := range q.GroupBy {
					k[i] = e.eval(g)
				}
				ks := k.groupKey()
				if _, ok := groups[ks]; !ok {
					order = append(order, ks)
				}
				groups[ks] = append(groups[ks], e)
			}
		}
		for _, ks := range order {
			rows := groups[ks]
			var ge *env
			if len(rows) > 0 {
				cp := *rows[0]
				ge = &cp
			} else {
				// empty input, no GROUP BY: columns are NULL, aggregates over nothing
				var padded []binding
				for _, sb := range schema {
					padded = append(padded, binding{alias: sb.alias, cols: sb.cols})
				}
				ge = &env{binds: padded, parent: outer, db: db, ctes: ctes}
			}
			ge.group = rows
			if ge.group == nil {
				ge.group = []*env{}
			}
			row := project(ge)
			if q.Having != nil {
				ge.sel = map[string]Value{}
				for i, n := range outCols {
					ge.sel[n] = row[i]
				}
				if ge.truth(q.Having) != True {
					continue
				}
			}
			out = append(out, row)
		}
	}
	if q.Distinct {
		out = dedupe(out)
	}
	return &Result{Cols: outCols, Rows: out}
}

func dedupe(rows []Row) []Row {
	seen := map[string]bool{}
	var out []Row
	for _, r := range rows {
		k := r.groupKey()
		if !seen[k] {
			seen[k] = true
			out = append(out, r)
		}
	}
	return out
}

func setOp(kind string, all bool, l, r *Result) *Result {
	count := func(rows []Row) (map[string]int, map[string]Row, []string) {
		m := map[string]int{}
		rep := map[string]Row{}
		var order []string
		for _, x := range rows {
			k := x.groupKey()
			if _, ok := m[k]; !ok {
				order = append(order, k)
				rep[k] = x
			}
			m[k]++
		}
		return m, rep, order
	}
	lm, lrep, lorder := count(l.Rows)
	rm, _, _ := count(r.Rows)
	var out []Row
	switch strings.ToUpper(kind) {
	case "UNION":
		out = append(append([]Row{}, l.Rows...), r.Rows...)
		if !all {
			out = dedupe(out)
		}
	case "INTERSECT":
		for _, k := range lorder {
			n := 0
			if rm[k] > 0 {
				n = 1
				if all {
					n = lm[k]
					if rm[k] < n {
						n = rm[k]
					}
				}
			}
			for i := 0; i < n; i++ {
				out = append(out, lrep[k])
			}
		}
	case "EXCEPT":
		for _, k := range lorder {
			n := 0
			if all {
				n = lm[k] - rm[k]
			} else if rm[k] == 0 {
				n = 1
			}
			for i := 0; i < n; i++ {
				out = append(out, lrep[k])
			}
		}
	default:
		panic("sqlref: bad set operation " + kind)
	}
	return &Result{Cols: l.Cols, Rows: out}
}

// Multiset renders the result rows sorted (for multiset comparison).
func (r *Result) Multiset() []string {
	out := make([]string, len(r.Rows))
	for i, row := range r.Rows {
		out[i] = row.Key()
	}
	sort.Strings(out)
	return out
}

// Sequence renders the rows in order.
func (r *Result) Sequence() []string {
	out := make([]string, len(r.Rows))
	for i, row := range r.Rows {
		out[i] = row.Key()
	}
	return out
}
