package sqlref

import (
	"fmt"
	"math/big"
	"strings"
)

// Value is NULL, an exact number (integers and decimals are rationals) or a string.
type Value struct {
	Null  bool
	IsStr bool
	N     *big.Rat
	S     string
}

var Null = Value{Null: true}

func Int(i int64) Value    { return Value{N: new(big.Rat).SetInt64(i)} }
func Rat(r *big.Rat) Value { return Value{N: r} }
func Str(s string) Value   { return Value{IsStr: true, S: s} }
func Bool(b bool) Value {
	if b {
		return Int(1)
	}
	return Int(0)
}

func (v Value) SQL() string {
	switch {
	case v.Null:
		return "NULL"
	case v.IsStr:
		return "'" + strings.ReplaceAll(v.S, "'", "''") + "'"
	case v.N.IsInt():
		return v.N.Num().String()
	default:
		return v.N.FloatString(4)
	}
}

// Key renders the value canonically for multiset comparison; numbers are rounded to 3 decimals
// (AVG's scale is implementation-defined beyond that).
func (v Value) Key() string {
	switch {
	case v.Null:
		return "NULL"
	case v.IsStr:
		return "'" + v.S + "'"
	default:
		return NumKey(v.N)
	}
}

func NumKey(r *big.Rat) string {
	if r.IsInt() {
		return r.Num().String()
	}
	s := r.FloatString(3)
	s = strings.TrimRight(s, "0")
	s = strings.TrimSuffix(s, ".")
	if s == "-0" {
		s = "0"
	}
	return s
}

// ParseEngineValue converts a value formatted by eng.FormatValue into a Key-comparable string.
func ParseEngineValue(s string) string {
	if s == "NULL" {
		return s
	}
	if strings.HasPrefix(s, "'") {
		// a numeric string denotes the number (set operations may unify a DECIMAL and an INT
		// branch to a text type; the value is what is compared, its result type is C09's business)
		if r, ok := new(big.Rat).SetString(strings.Trim(s, "'")); ok && len(s) > 2 {
			return NumKey(r)
		}
		return s
	}
	r, ok := new(big.Rat).SetString(s)
	if !ok {
		return "?" + s
	}
	return NumKey(r)
}

func (v Value) String() string { return v.Key() }

// Truth is SQL's three-valued logic.
type Truth int8

const (
	False   Truth = 0
	True    Truth = 1
	Unknown Truth = 2
)

func (t Truth) Value() Value {
	switch t {
	case True:
		return Int(1)
	case False:
		return Int(0)
	}
	return Null
}

func TruthOf(v Value) Truth {
	if v.Null {
		return Unknown
	}
	if v.IsStr {
		// MySQL converts strings to numbers; only numeric strings are used in boolean position
		r, ok := new(big.Rat).SetString(strings.TrimSpace(v.S))
		if !ok || r.Sign() == 0 {
			return False
		}
		return True
	}
	if v.N.Sign() != 0 {
		return True
	}
	return False
}

func and3(a, b Truth) Truth {
	if a == False || b == False {
		return False
	}
	if a == Unknown || b == Unknown {
		return Unknown
	}
	return True
}

func or3(a, b Truth) Truth {
	if a == True || b == True {
		return True
	}
	if a == Unknown || b == Unknown {
		return Unknown
	}
	return False
}

func not3(a Truth) Truth {
	switch a {
	case True:
		return False
	case False:
		return True
	}
	return Unknown
}

// CompareFn compares two non-NULL strings (collation); default binary.
var CompareStr = func(a, b string) int { return strings.Compare(a, b) }

// compare returns -1/0/1 for non-NULL values. Mixed string/number compares numerically (MySQL).
func compare(a, b Value) int {
	if a.IsStr && b.IsStr {
		return CompareStr(a.S, b.S)
	}
	return num(a).Cmp(num(b))
}

func num(v Value) *big.Rat {
	if !v.IsStr {
		return v.N
	}
	// MySQL numeric prefix conversion
	s := strings.TrimSpace(v.S)
	end := 0
	seenDot, seenDigit := false, false
	for i, c := range s {
		if (c == '-' || c == '+') && i == 0 {
			end = i + 1
			continue
		}
		if c == '.' && !seenDot {
			seenDot = true
			end = i + 1
			continue
		}
		if c >= '0' && c <= '9' {
			seenDigit = true
			end = i + 1
			continue
		}
		break
	}
	if !seenDigit {
		return new(big.Rat)
	}
	r, ok := new(big.Rat).SetString(strings.TrimSuffix(s[:end], "."))
	if !ok {
		return new(big.Rat)
	}
	return r
}

// equalNullSafe treats NULLs as equal (grouping, DISTINCT, set operations, <=>).
func equalNullSafe(a, b Value) bool {
	if a.Null || b.Null {
		return a.Null && b.Null
	}
	return compare(a, b) == 0
}

func cmpOp(op string, a, b Value) Truth {
	if op == "<=>" {
		if equalNullSafe(a, b) {
			return True
		}
		return False
	}
	if a.Null || b.Null {
		return Unknown
	}
	c := compare(a, b)
	var r bool
	switch op {
	case "=":
		r = c == 0
	case "<>", "!=":
		r = c != 0
	case "<":
		r = c < 0
	case "<=":
		r = c <= 0
	case ">":
		r = c > 0
	case ">=":
		r = c >= 0
	default:
		panic("sqlref: bad comparison operator " + op)
	}
	if r {
		return True
	}
	return False
}

type Row []Value

func (r Row) Key() string {
	parts := make([]string, len(r))
	for i, v := range r {
		parts[i] = v.Key()
	}
	return "(" + strings.Join(parts, ",") + ")"
}

// groupKey is a NULL-safe, representation-insensitive key.
func (r Row) groupKey() string {
	parts := make([]string, len(r))
	for i, v := range r {
		switch {
		case v.Null:
			parts[i] = "N"
		case v.IsStr:
			parts[i] = "s" + fmt.Sprintf("%q", v.S)
		default:
			parts[i] = "n" + v.N.RatString()
		}
	}
	return strings.Join(parts, "|")
}
