package tmodel

import "fmt"

// Alphabet is a schema together with the statement alphabet explored on it.
type Alphabet struct {
	Schema *Schema
	Ops    []*Stmt
}

func (a *Alphabet) Labels() []string {
	out := make([]string, len(a.Ops))
	for i, st := range a.Ops {
		out[i] = st.SQL(a.Schema)
	}
	return out
}

func one(t *TableDef) *Schema { return &Schema{Name: t.Name, Tables: []*TableDef{t}} }

func named(name string, t *TableDef) *Schema {
	return &Schema{Name: name, Tables: []*TableDef{t}}
}

func ic(name string, notnull bool) Col { return Col{Name: name, Kind: KInt, NotNull: notnull} }

// ---------------------------------------------------------------------------------------------
// C13: values {1,2,3,12,23} (+NULL for non-key columns), chosen so that composite keys collide
// when their printed forms are concatenated ((1,23) vs (12,3)).

// twoCol builds the statement alphabet for a table t(a, b): a is the (key) column rendered by kv,
// shift is the key-moving expression (a+1, or concat(a,'3') for a string key).
func twoCol(s *Schema, kv func(int64) V, shift Expr, shift2 Expr) []*Stmt {
	const T = "t"
	r := func(a int64, b V) []V { return Row(kv(a), b) }
	n := N()
	as := func(c int, e Expr) []Assign { return []Assign{{c, e}} }
	w := func(c int, op string, v V) *Cond { return &Cond{Col: c, Op: op, V: v} }
	return []*Stmt{
		// single-row INSERT
		Ins(T, r(1, I(1))), Ins(T, r(2, I(2))), Ins(T, r(3, n)), Ins(T, r(12, I(3))), Ins(T, r(23, I(1))),
		// two-row INSERT (the second statement duplicates its own first row on a)
		Ins(T, r(1, I(2)), r(2, I(1))), Ins(T, r(3, I(3)), r(3, I(12))), Ins(T, r(12, I(23)), r(23, n)),
		// INSERT IGNORE
		InsIgnore(T, r(1, I(12)), r(2, I(12))), InsIgnore(T, r(2, I(3)), r(3, I(23))),
		// REPLACE
		Repl(T, r(1, I(2))), Repl(T, r(2, I(1))), Repl(T, r(3, I(1)), r(12, I(1))),
		// INSERT … ON DUPLICATE KEY UPDATE
		Odku(T, as(1, Plus(1, 1)), r(1, I(1))),
		Odku(T, as(1, Plus(1, 1)), r(2, I(23)), r(2, I(3))),
		Odku(T, as(0, shift), r(2, I(2))),
		Odku(T, as(1, ValuesOf(1)), r(12, I(1))),
		// UPDATE
		Upd(T, as(1, Lit(I(2))), nil, -1, false, -1),
		Upd(T, as(1, Lit(I(1))), w(0, "=", kv(2)), -1, false, -1),
		Upd(T, as(1, Lit(n)), w(0, ">=", kv(3)), -1, false, -1),
		Upd(T, as(0, shift), nil, -1, false, -1),
		Upd(T, as(0, shift), nil, 0, true, -1),
		Upd(T, as(0, shift), nil, 0, false, -1),
		Upd(T, as(0, shift), w(0, "<", kv(3)), 0, true, 1),
		Upd(T, as(1, Lit(I(3))), nil, 0, false, 1),
		Upd(T, as(1, Lit(I(12))), nil, -1, false, 1),
		Upd(T, as(1, Plus(1, 1)), nil, 1, true, -1),
		Upd(T, as(0, Lit(kv(12))), w(0, "=", kv(2)), -1, false, -1),
		Upd(T, as(0, shift), w(1, "=", I(1)), -1, false, -1),
		// one UPDATE that moves the row to another primary key AND gives it a value of b that
		// another row may already hold (primary-key change and unique check in the same statement)
		Upd(T, []Assign{{0, Lit(kv(12))}, {1, Lit(I(1))}}, w(0, "=", kv(2)), -1, false, -1),
		Upd(T, []Assign{{0, shift}, {1, Lit(I(2))}}, w(0, "=", kv(1)), -1, false, -1),
		// DELETE
		Del(T, nil, -1, false, -1),
		Del(T, w(0, "=", kv(1)), -1, false, -1),
		Del(T, w(0, ">", kv(2)), -1, false, -1),
		Del(T, w(1, "=", I(1)), -1, false, -1),
		Del(T, w(1, "isnull", n), -1, false, -1),
		Del(T, nil, 0, false, 1),
		Del(T, nil, 0, true, 1),
		Del(T, nil, -1, false, 1),
		// INSERT … SELECT from the same table
		InsSel(T, []Expr{shift, ColRef(1)}, nil),
		InsSel(T, []Expr{shift2, Lit(n)}, w(0, "<", kv(3))),
		Trunc(T),
	}
}

func intKey(i int64) V { return I(i) }
func strKey(i int64) V { return S(fmt.Sprint(i)) }

func pkABOps() []*Stmt {
	const T = "t"
	r := func(a, b int64, c V) []V { return Row(I(a), I(b), c) }
	n := N()
	as := func(c int, e Expr) []Assign { return []Assign{{c, e}} }
	w := func(c int, op string, v V) *Cond { return &Cond{Col: c, Op: op, V: v} }
	return []*Stmt{
		Ins(T, r(1, 23, I(1))), Ins(T, r(12, 3, I(2))), Ins(T, r(1, 2, n)), Ins(T, r(2, 3, I(3))), Ins(T, r(3, 1, I(12))),
		Ins(T, r(1, 23, I(1)), r(12, 3, I(2))), Ins(T, r(1, 2, I(3)), r(1, 2, I(1))), Ins(T, r(2, 1, n), r(23, 1, I(2))),
		InsIgnore(T, r(1, 23, I(12)), r(12, 3, I(12))), InsIgnore(T, r(1, 2, I(23)), r(2, 3, I(23))),
		Repl(T, r(1, 23, I(3))), Repl(T, r(12, 3, I(3))), Repl(T, r(1, 2, I(2)), r(12, 3, I(1))),
		Odku(T, as(2, Plus(2, 1)), r(1, 23, I(1))),
		Odku(T, as(2, Plus(2, 1)), r(12, 3, I(1)), r(1, 23, I(1))),
		Odku(T, as(0, Plus(0, 1)), r(1, 2, I(1))),
		Odku(T, as(2, ValuesOf(2)), r(12, 3, I(1))),
		Upd(T, as(2, Lit(I(2))), nil, -1, false, -1),
		Upd(T, as(2, Lit(I(1))), w(0, "=", I(1)), -1, false, -1),
		Upd(T, as(2, Lit(n)), w(1, ">=", I(3)), -1, false, -1),
		Upd(T, as(0, Plus(0, 1)), nil, -1, false, -1),
		Upd(T, as(0, Plus(0, 1)), nil, 0, true, -1),
		Upd(T, as(0, Plus(0, 1)), nil, 0, false, -1),
		Upd(T, as(0, Plus(0, 1)), w(0, "<", I(3)), 0, true, 1),
		Upd(T, as(2, Lit(I(3))), nil, 0, false, 1),
		Upd(T, as(2, Lit(I(12))), nil, -1, false, 1),
		Upd(T, as(1, Plus(1, 1)), w(0, "=", I(1)), -1, false, -1),
		Upd(T, []Assign{{0, Lit(I(12))}, {1, Lit(I(3))}}, w(0, "=", I(1)), -1, false, -1),
		Upd(T, as(1, Lit(I(23))), w(0, "=", I(1)), -1, false, -1),
		Del(T, nil, -1, false, -1),
		Del(T, w(0, "=", I(1)), -1, false, -1),
		Del(T, w(0, ">", I(2)), -1, false, -1),
		Del(T, w(2, "=", I(1)), -1, false, -1),
		Del(T, w(2, "isnull", n), -1, false, -1),
		Del(T, nil, 0, false, 1),
		Del(T, nil, 0, true, 1),
		Del(T, nil, -1, false, 1),
		InsSel(T, []Expr{Plus(0, 1), ColRef(1), ColRef(2)}, nil),
		InsSel(T, []Expr{ColRef(0), Plus(1, 1), Lit(n)}, w(0, "<", I(3))),
		Trunc(T),
	}
}

// C13Alphabets returns the five table shapes of C13 with their alphabets.
func C13Alphabets() []*Alphabet {
	keyless := named("keyless", &TableDef{Name: "t", Cols: []Col{ic("a", false), ic("b", false)}})
	pkA := named("pk_a", &TableDef{Name: "t", Cols: []Col{ic("a", true), ic("b", false)}, PK: []int{0}})
	pkAB := named("pk_ab", &TableDef{Name: "t", Cols: []Col{ic("a", true), ic("b", true), ic("c", false)}, PK: []int{0, 1}})
	pkAuB := named("pk_a_uq_b", &TableDef{Name: "t", Cols: []Col{ic("a", true), ic("b", false)}, PK: []int{0},
		Idx: []Index{{Name: "ub", Cols: []int{1}, Unique: true}}})
	pkS := named("pk_s", &TableDef{Name: "t", Cols: []Col{{Name: "a", Kind: KStr, Len: 3, Coll: Bin, NotNull: true}, ic("b", false)}, PK: []int{0}})
	return []*Alphabet{
		{pkAuB, twoCol(pkAuB, intKey, Plus(0, 1), Plus(0, 10))},
		{pkAB, pkABOps()},
		{pkA, twoCol(pkA, intKey, Plus(0, 1), Plus(0, 10))},
		{pkS, twoCol(pkS, strKey, Concat(0, "3"), Concat(0, "2"))},
		{keyless, twoCol(keyless, intKey, Plus(0, 1), Plus(0, 10))},
	}
}

func AlphabetByName(as []*Alphabet, name string) *Alphabet {
	for _, a := range as {
		if a.Schema.Name == name {
			return a
		}
	}
	return nil
}
