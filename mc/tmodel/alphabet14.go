package tmodel

// C14: key columns whose equality is not byte equality — strings under utf8mb4_0900_ai_ci vs _bin
// over {'a','A','á','ab','abc'}, prefix unique keys, composite unique keys with NULL members,
// DECIMAL keys (1.0 vs 1.00 vs 1.001).

var strVals = []string{"a", "A", "á", "ab", "abc"}

func sc(name string, coll Coll, notnull bool) Col {
	return Col{Name: name, Kind: KStr, Len: 8, Coll: coll, NotNull: notnull}
}

func asg(c int, e Expr) []Assign             { return []Assign{{c, e}} }
func wh(c int, op string, v V) *Cond         { return &Cond{Col: c, Op: op, V: v} }
func upd(as []Assign, w *Cond) *Stmt         { return Upd("t", as, w, -1, false, -1) }
func del(w *Cond) *Stmt                      { return Del("t", w, -1, false, -1) }
func updOL(as []Assign, o int, d bool) *Stmt { return Upd("t", as, nil, o, d, 1) }

// strPKOps: table t(s varchar primary key, b int).
func strPKOps() []*Stmt {
	const T = "t"
	r := func(s string, b int64) []V { return Row(S(s), I(b)) }
	var ops []*Stmt
	for _, v := range strVals {
		ops = append(ops, Ins(T, r(v, 1)))
	}
	ops = append(ops,
		Ins(T, r("a", 1), r("A", 2)), Ins(T, r("ab", 1), r("abc", 2)), Ins(T, r("á", 1), r("a", 2)),
		InsIgnore(T, r("A", 3)), InsIgnore(T, r("a", 3), r("á", 3)),
		Repl(T, r("A", 4)), Repl(T, r("á", 4)), Repl(T, r("abc", 4)),
		Odku(T, asg(1, Plus(1, 1)), r("A", 9)), Odku(T, asg(1, Plus(1, 1)), r("á", 9)),
		Odku(T, asg(0, Concat(0, "b")), r("a", 9)),
		upd(asg(0, Lit(S("A"))), wh(0, "=", S("ab"))),
		upd(asg(0, Lit(S("a"))), nil),
		upd(asg(0, Lit(S("á"))), wh(1, "=", I(1))),
		upd(asg(0, Concat(0, "c")), wh(0, "=", S("ab"))),
		upd(asg(1, Plus(1, 1)), wh(0, "=", S("a"))),
		del(wh(0, "=", S("a"))), del(wh(0, "=", S("A"))), del(wh(0, "=", S("ab"))), del(nil),
		Del(T, nil, 0, false, 1),
	)
	return ops
}

// strUQOps: table t(a int primary key, s varchar, unique key us (s[(n)])).
func strUQOps() []*Stmt {
	const T = "t"
	r := func(a int64, s string) []V { return Row(I(a), S(s)) }
	rn := func(a int64) []V { return Row(I(a), N()) }
	var ops []*Stmt
	for _, v := range strVals {
		ops = append(ops, Ins(T, r(1, v)))
	}
	ops = append(ops, Ins(T, rn(1)),
		Ins(T, r(2, "a")), Ins(T, r(2, "A")), Ins(T, r(2, "ab")), Ins(T, rn(2)), Ins(T, r(3, "á")), Ins(T, r(3, "abc")),
		Ins(T, r(1, "a"), r(2, "A")), Ins(T, r(1, "ab"), r(2, "abc")), Ins(T, rn(2), rn(3)),
		InsIgnore(T, r(3, "A")), InsIgnore(T, r(2, "á"), r(3, "a")),
		Repl(T, r(1, "A")), Repl(T, r(2, "a")), Repl(T, r(3, "abc")), Repl(T, r(2, "ab"), r(3, "abc")),
		Odku(T, asg(0, Plus(0, 1)), r(2, "A")), Odku(T, asg(1, Concat(1, "b")), r(3, "a")), Odku(T, asg(1, ValuesOf(1)), r(1, "á")),
		upd(asg(1, Lit(S("A"))), wh(0, "=", I(2))),
		upd(asg(1, Lit(S("a"))), nil),
		upd(asg(1, Lit(N())), wh(0, "=", I(1))),
		upd(asg(1, Concat(1, "c")), wh(0, "=", I(1))),
		updOL(asg(1, Lit(S("abc"))), 0, false),
		// moves the row to another primary key and rewrites the unique column in the same statement
		upd([]Assign{{0, Lit(I(3))}, {1, Lit(S("A"))}}, wh(0, "=", I(2))),
		del(wh(1, "=", S("a"))), del(wh(0, "=", I(1))), del(nil), del(wh(1, "isnull", N())),
	)
	return ops
}

// nullUQOps: table t(a int primary key, b int, c int, unique key ubc (b,c)).
func nullUQOps() []*Stmt {
	const T = "t"
	n := N()
	r := func(a int64, b, c V) []V { return Row(I(a), b, c) }
	pairs := [][2]V{{I(1), I(1)}, {I(1), n}, {n, I(1)}, {n, n}, {I(1), I(2)}}
	var ops []*Stmt
	for _, a := range []int64{1, 2} {
		for _, p := range pairs {
			ops = append(ops, Ins(T, r(a, p[0], p[1])))
		}
	}
	ops = append(ops, Ins(T, r(3, I(1), I(1))), Ins(T, r(3, n, n)),
		Ins(T, r(1, I(1), I(1)), r(2, I(1), I(1))), Ins(T, r(1, I(1), n), r(2, I(1), n)), Ins(T, r(2, n, n), r(3, n, n)),
		InsIgnore(T, r(3, I(1), I(1))), InsIgnore(T, r(2, I(1), I(2)), r(3, I(1), I(2))),
		Repl(T, r(3, I(1), I(1))), Repl(T, r(2, I(1), n)), Repl(T, r(1, I(1), I(2)), r(3, I(1), I(1))),
		Odku(T, asg(2, Plus(2, 1)), r(3, I(1), I(1))), Odku(T, asg(2, Plus(2, 1)), r(2, I(1), n)),
		upd(asg(2, Lit(I(1))), nil),
		upd(asg(2, Lit(n)), wh(0, "=", I(1))),
		upd(asg(1, Lit(I(1))), nil),
		upd([]Assign{{1, Lit(n)}, {2, Lit(n)}}, nil),
		Upd(T, asg(2, Plus(2, 1)), nil, 2, true, -1),
		upd([]Assign{{1, Lit(I(1))}, {2, Lit(I(1))}}, wh(0, "=", I(2))),
		upd([]Assign{{0, Lit(I(3))}, {1, Lit(I(1))}, {2, Lit(I(1))}}, wh(0, "=", I(2))),
		del(nil), del(wh(0, "=", I(1))), del(wh(2, "isnull", n)),
	)
	return ops
}

var decLits = []V{D(10, 1), D(100, 2), I(1), S("1.0"), D(1001, 3), D(1005, 3), D(101, 2), I(2)}

// decPKOps: table t(d decimal(4,2) primary key, b int).
func decPKOps() []*Stmt {
	const T = "t"
	r := func(d V, b int64) []V { return Row(d, I(b)) }
	var ops []*Stmt
	for _, v := range decLits {
		ops = append(ops, Ins(T, r(v, 1)))
	}
	ops = append(ops,
		Ins(T, r(D(10, 1), 1), r(D(100, 2), 2)), Ins(T, r(D(1005, 3), 1), r(D(101, 2), 2)), Ins(T, r(I(1), 1), r(I(2), 2)),
		InsIgnore(T, r(D(100, 2), 3)), InsIgnore(T, r(D(1001, 3), 3), r(I(2), 3)),
		Repl(T, r(D(100, 2), 4)), Repl(T, r(D(1005, 3), 4)), Repl(T, r(S("1.0"), 4)),
		Odku(T, asg(1, Plus(1, 1)), r(D(10, 1), 9)), Odku(T, asg(1, Plus(1, 1)), r(D(101, 2), 9)),
		upd(asg(0, Lit(D(100, 2))), wh(0, "=", I(2))),
		upd(asg(0, Lit(D(1005, 3))), nil),
		upd(asg(1, Plus(1, 1)), wh(0, "=", D(10, 1))),
		upd(asg(0, Lit(I(2))), wh(0, "=", D(101, 2))),
		del(wh(0, "=", D(10, 1))), del(wh(0, "=", D(101, 2))), del(nil),
	)
	return ops
}

// decUQOps: table t(a int primary key, d decimal(4,2), unique key ud (d)).
func decUQOps() []*Stmt {
	const T = "t"
	r := func(a int64, d V) []V { return Row(I(a), d) }
	var ops []*Stmt
	for _, v := range decLits {
		ops = append(ops, Ins(T, r(1, v)))
	}
	ops = append(ops, Ins(T, r(1, N())),
		Ins(T, r(2, D(10, 1))), Ins(T, r(2, D(100, 2))), Ins(T, r(2, D(1005, 3))), Ins(T, r(2, N())), Ins(T, r(3, D(101, 2))), Ins(T, r(3, I(1))),
		Ins(T, r(1, D(10, 1)), r(2, D(100, 2))), Ins(T, r(2, D(1005, 3)), r(3, D(101, 2))), Ins(T, r(2, N()), r(3, N())),
		InsIgnore(T, r(3, D(100, 2))), InsIgnore(T, r(2, D(1001, 3)), r(3, I(2))),
		Repl(T, r(1, D(100, 2))), Repl(T, r(3, D(1005, 3))), Repl(T, r(2, S("1.0")), r(3, I(1))),
		Odku(T, asg(0, Plus(0, 1)), r(2, D(10, 1))), Odku(T, asg(1, ValuesOf(1)), r(1, D(101, 2))),
		upd(asg(1, Lit(D(100, 2))), wh(0, "=", I(2))),
		upd(asg(1, Lit(D(1005, 3))), nil),
		upd(asg(1, Lit(N())), wh(0, "=", I(1))),
		upd([]Assign{{0, Lit(I(3))}, {1, Lit(D(100, 2))}}, wh(0, "=", I(2))),
		del(wh(1, "=", D(10, 1))), del(wh(0, "=", I(1))), del(nil),
	)
	return ops
}

// C14Alphabets returns the key-focused table shapes. The first two are C13's keyed shapes (same
// alphabet), explored here under the C14 oracle as well.
func C14Alphabets() []*Alphabet {
	c13 := C13Alphabets()
	out := []*Alphabet{AlphabetByName(c13, "pk_ab"), AlphabetByName(c13, "pk_a_uq_b")}
	mk := func(name string, t *TableDef, ops []*Stmt) {
		out = append(out, &Alphabet{named(name, t), ops})
	}
	mk("pk_s_ci", &TableDef{Name: "t", Cols: []Col{sc("s", AiCi, true), ic("b", false)}, PK: []int{0}}, strPKOps())
	mk("pk_s_bin", &TableDef{Name: "t", Cols: []Col{sc("s", Bin, true), ic("b", false)}, PK: []int{0}}, strPKOps())
	uq := func(coll Coll, prefix int) *TableDef {
		return &TableDef{Name: "t", Cols: []Col{ic("a", true), sc("s", coll, false)}, PK: []int{0},
			Idx: []Index{{Name: "us", Cols: []int{1}, Prefix: []int{prefix}, Unique: true}}}
	}
	mk("uq_s_ci", uq(AiCi, 0), strUQOps())
	mk("uq_s_bin", uq(Bin, 0), strUQOps())
	mk("uq_s2_bin", uq(Bin, 2), strUQOps())
	mk("uq_s1_ci", uq(AiCi, 1), strUQOps())
	mk("uq_bc_null", &TableDef{Name: "t", Cols: []Col{ic("a", true), ic("b", false), ic("c", false)}, PK: []int{0},
		Idx: []Index{{Name: "ubc", Cols: []int{1, 2}, Unique: true}}}, nullUQOps())
	dc := func(name string, notnull bool) Col {
		return Col{Name: name, Kind: KDec, Prec: 4, Scale: 2, NotNull: notnull}
	}
	mk("pk_dec", &TableDef{Name: "t", Cols: []Col{dc("d", true), ic("b", false)}, PK: []int{0}}, decPKOps())
	mk("uq_dec", &TableDef{Name: "t", Cols: []Col{ic("a", true), dc("d", false)}, PK: []int{0},
		Idx: []Index{{Name: "ud", Cols: []int{1}, Unique: true}}}, decUQOps())
	return out
}

// KeyType describes the kind of equality the unique keys of a table need.
func KeyType(def *TableDef) string {
	out := ""
	for _, k := range def.UniqueKeys() {
		d := "pk:"
		if k.Name != "PRIMARY" {
			d = "unique:"
		}
		for i, c := range k.Cols {
			col := def.Cols[c]
			if i > 0 {
				d += "+"
			}
			switch col.Kind {
			case KInt:
				d += "int"
			case KDec:
				d += "decimal"
			case KStr:
				d += "varchar/" + map[Coll]string{Bin: "bin", AiCi: "ai_ci"}[col.Coll]
				if k.Prefix != nil && k.Prefix[i] > 0 {
					d += "/prefix"
				}
			}
			if !col.NotNull {
				d += "?"
			}
		}
		if out != "" {
			out += " "
		}
		out += d
	}
	return out
}

// KeyAlias reports whether, among the given rows, two rows are equal on a unique key (as the model
// defines key equality) without their key values being identical — equal only by collation,
// by prefix, or by numeric value. It classifies which kind of key comparison a case exercises.
func KeyAlias(def *TableDef, rowsets ...[][]V) bool {
	var rows [][]V
	for _, rs := range rowsets {
		for _, r := range rs {
			if r != nil && len(r) == len(def.Cols) {
				rows = append(rows, r)
			}
		}
	}
	for _, k := range def.UniqueKeys() {
		for i := range rows {
			for j := i + 1; j < len(rows); j++ {
				if !KeyEqual(def, k, rows[i], rows[j]) {
					continue
				}
				for _, c := range k.Cols {
					if !rows[i][c].Same(rows[j][c]) {
						return true
					}
				}
			}
		}
	}
	return false
}

// Subject14 is Subject plus the key coordinates of C14.
func Subject14(s *Schema, st *Stmt, pre *DB, all []Outcome, engineRows [][]V) map[string]string {
	def := s.Table(st.Table)
	sub := Subject(s, st, pre, all)
	sub["keytype"] = KeyType(def)
	sets := [][][]V{pre.T[st.Table].Rows, StmtRowsRaw(def, st), candidateRows(def, st, pre), engineRows}
	for i := range all {
		sets = append(sets, all[i].DB.T[st.Table].Rows)
	}
	sub["key_alias"] = "n"
	if KeyAlias(def, sets...) {
		sub["key_alias"] = "y"
	}
	for _, rs := range sets {
		for _, r := range rs {
			for _, v := range r {
				if !v.Null && v.K == KStr {
					if _, has := sub["multibyte"]; !has {
						sub["multibyte"] = "n"
					}
					for _, ch := range v.S {
						if ch >= 0x80 {
							sub["multibyte"] = "y"
						}
					}
				}
			}
		}
	}
	return sub
}

// StmtRowsRaw: the statement's rows with string/decimal literals kept as written where the
// conversion does not change their meaning (so that 1.0 vs 1.00 is not an alias, they are the same
// stored value) — i.e. the converted rows.
func StmtRowsRaw(def *TableDef, st *Stmt) [][]V { return StmtRows(def, st) }
