package tmodel

// C15: table shapes whose statements touch more than one structure — secondary indexes, a foreign
// key child with CASCADE actions, triggers writing an audit table, CHECK / NOT NULL / conversion
// failures — with multi-row statements whose natural failure falls on row 1, 2 or 3.

func r3(a int64, b, c V) []V { return Row(I(a), b, c) }
func r2(a int64, b V) []V    { return Row(I(a), b) }

func idxAlphabet() *Alphabet {
	const T = "t"
	t := &TableDef{Name: T, Cols: []Col{ic("a", true), ic("b", false), ic("c", false)}, PK: []int{0},
		Idx: []Index{{Name: "kb", Cols: []int{1}}, {Name: "uc", Cols: []int{2}, Unique: true}, {Name: "kbc", Cols: []int{1, 2}}}}
	s := named("idx", t)
	n := N()
	ops := []*Stmt{
		Ins(T, r3(1, I(1), I(1))), Ins(T, r3(2, I(2), I(2))), Ins(T, r3(3, I(1), n)), Ins(T, r3(12, I(23), I(12))),
		// three rows, duplicate at row 2 / row 3 (primary key), row 3 (unique), row 1 (if a=1 exists)
		Ins(T, r3(4, I(1), I(4)), r3(4, I(2), I(5)), r3(5, I(1), I(6))),
		Ins(T, r3(4, I(1), I(4)), r3(5, I(2), I(5)), r3(4, I(3), I(6))),
		Ins(T, r3(4, I(1), I(7)), r3(5, I(2), I(8)), r3(6, I(3), I(7))),
		Ins(T, r3(1, I(3), I(3)), r3(5, I(2), I(8)), r3(6, I(3), I(9))),
		InsIgnore(T, r3(1, I(2), I(9)), r3(7, I(2), I(1)), r3(8, I(2), I(13))),
		Repl(T, r3(1, I(2), I(2))), Repl(T, r3(2, I(3), I(1)), r3(3, I(3), I(1))),
		Odku(T, asg(1, Plus(1, 1)), r3(1, I(1), I(1)), r3(9, I(1), I(2))),
		Odku(T, asg(2, Plus(2, 1)), r3(1, I(1), I(1)), r3(2, I(1), I(1))),
		Upd(T, asg(1, Plus(1, 1)), nil, -1, false, -1),
		Upd(T, asg(2, Plus(2, 1)), nil, -1, false, -1),
		Upd(T, asg(2, Plus(2, 1)), nil, 2, true, -1),
		Upd(T, asg(0, Plus(0, 1)), nil, -1, false, -1),
		Upd(T, asg(0, Plus(0, 1)), nil, 0, true, -1),
		Upd(T, asg(1, Lit(n)), wh(0, ">", I(1)), -1, false, -1),
		Upd(T, asg(2, Lit(I(1))), nil, -1, false, -1),
		Upd(T, []Assign{{1, Lit(I(3))}, {2, Lit(I(2))}}, wh(0, ">=", I(2)), 0, false, -1),
		Del(T, nil, -1, false, -1), Del(T, wh(1, "=", I(1)), -1, false, -1), Del(T, nil, 0, false, 1), Del(T, wh(2, "isnull", n), -1, false, -1),
		InsSel(T, []Expr{Plus(0, 3), ColRef(1), Plus(2, 10)}, nil),
		InsSel(T, []Expr{Plus(0, 1), ColRef(1), Lit(n)}, nil),
		Trunc(T),
	}
	return &Alphabet{s, ops}
}

func fkAlphabet() *Alphabet {
	const T, C = "t", "c"
	t := &TableDef{Name: T, Cols: []Col{ic("a", true), ic("b", false)}, PK: []int{0}}
	c := &TableDef{Name: C, Cols: []Col{ic("id", true), ic("pa", false)}, PK: []int{0},
		Idx: []Index{{Name: "kpa", Cols: []int{1}}},
		FKs: []FK{{Name: "fk_c_t", Cols: []int{1}, Parent: T, PCols: []int{0}, OnDelete: "CASCADE", OnUpdate: "CASCADE"}}}
	s := &Schema{Name: "fk", Tables: []*TableDef{t, c}}
	n := N()
	s.Seed = []*Stmt{
		Ins(T, r2(1, I(1)), r2(2, I(2)), r2(3, I(3))),
		Ins(C, r2(1, I(1)), r2(2, I(1)), r2(3, I(2)), r2(4, n)),
	}
	ops := []*Stmt{
		// parent
		Ins(T, r2(4, I(4))), Ins(T, r2(5, I(5)), r2(6, I(6)), r2(1, I(7))), Ins(T, r2(5, I(5)), r2(5, I(6)), r2(6, I(7))),
		InsIgnore(T, r2(1, I(9)), r2(7, I(9))),
		Odku(T, asg(0, Plus(0, 10)), r2(1, I(0))), Odku(T, asg(0, Plus(0, 1)), r2(1, I(0))),
		Del(T, wh(0, "=", I(1)), -1, false, -1), Del(T, nil, -1, false, -1), Del(T, nil, 0, false, 1), Del(T, wh(0, ">=", I(2)), -1, false, -1),
		Upd(T, asg(0, Plus(0, 1)), nil, -1, false, -1),
		Upd(T, asg(0, Plus(0, 1)), nil, 0, true, -1),
		Upd(T, asg(0, Plus(0, 10)), wh(0, "<=", I(2)), -1, false, -1),
		Upd(T, asg(0, Lit(I(3))), wh(0, "<=", I(2)), 0, true, -1),
		Upd(T, asg(1, Plus(1, 1)), nil, -1, false, -1),
		// child
		Ins(C, r2(5, I(1))), Ins(C, r2(6, I(9))),
		Ins(C, r2(5, I(1)), r2(6, I(2)), r2(7, I(9))), Ins(C, r2(5, I(1)), r2(6, I(9)), r2(7, I(2))), Ins(C, r2(5, I(9)), r2(6, I(1)), r2(7, I(2))),
		InsIgnore(C, r2(5, I(9)), r2(6, I(3))),
		Upd(C, asg(1, Lit(I(3))), nil, -1, false, -1),
		Upd(C, asg(1, Plus(1, 2)), nil, 0, false, -1),
		Upd(C, asg(1, Lit(I(9))), wh(0, ">=", I(2)), -1, false, -1),
		Upd(C, asg(0, Plus(0, 1)), nil, 0, true, -1),
		Del(C, nil, -1, false, -1), Del(C, wh(1, "=", I(1)), -1, false, -1),
	}
	return &Alphabet{s, ops}
}

func trigAlphabet() *Alphabet {
	const T = "t"
	au := &TableDef{Name: "au", Cols: []Col{{Name: "op", Kind: KStr, Len: 4, Coll: Bin}, ic("a", false), ic("b", false)}}
	t := &TableDef{Name: T, Cols: []Col{ic("a", true), ic("b", false)}, PK: []int{0},
		Triggers: []Trigger{
			{Event: "insert", Audit: "au", SigCol: 1, SigVal: I(23)},
			{Event: "update", Audit: "au", SigCol: 1, SigVal: I(23)},
			{Event: "delete", Audit: "au", SigCol: 1, SigVal: I(12)},
		}}
	s := &Schema{Name: "trig", Tables: []*TableDef{au, t}}
	ops := []*Stmt{
		Ins(T, r2(1, I(1))), Ins(T, r2(2, I(12))), Ins(T, r2(3, I(23))),
		// SIGNAL at the 3rd / 2nd / 1st firing; duplicate at row 3 after two firings
		Ins(T, r2(4, I(1)), r2(5, I(2)), r2(6, I(23))),
		Ins(T, r2(4, I(1)), r2(5, I(23)), r2(6, I(2))),
		Ins(T, r2(4, I(23)), r2(5, I(1)), r2(6, I(2))),
		Ins(T, r2(7, I(1)), r2(8, I(1)), r2(7, I(2))),
		InsIgnore(T, r2(1, I(5)), r2(9, I(5))),
		Upd(T, asg(1, Lit(I(23))), wh(0, "=", I(1)), -1, false, -1),
		Upd(T, asg(1, Plus(1, 11)), nil, -1, false, -1),
		Upd(T, asg(1, Plus(1, 11)), nil, 0, true, -1),
		Upd(T, asg(1, Lit(I(12))), nil, -1, false, -1),
		Upd(T, asg(0, Plus(0, 1)), nil, 0, true, -1),
		Upd(T, asg(0, Plus(0, 1)), nil, -1, false, -1),
		Del(T, nil, -1, false, -1), Del(T, nil, 0, true, -1), Del(T, wh(0, "=", I(1)), -1, false, -1), Del(T, wh(1, "<", I(12)), -1, false, -1),
	}
	return &Alphabet{s, ops}
}

func chkAlphabet() *Alphabet {
	const T = "t"
	t := &TableDef{Name: T, Cols: []Col{ic("a", true), ic("b", false), {Name: "s", Kind: KStr, Len: 3, Coll: Bin}}, PK: []int{0},
		Idx:    []Index{{Name: "ks", Cols: []int{2}}},
		Checks: []Check{{Col: 1, Op: "<", V: I(20)}}}
	s := named("chk", t)
	n := N()
	row := func(a V, b V, str string) []V { return Row(a, b, S(str)) }
	ops := []*Stmt{
		Ins(T, row(I(1), I(1), "a")), Ins(T, row(I(2), I(12), "abc")), Ins(T, row(I(3), n, "b")), Ins(T, row(I(4), I(23), "c")),
		// CHECK violation at row 3 / 2 / 1
		Ins(T, row(I(5), I(1), "a"), row(I(6), I(2), "b"), row(I(7), I(23), "c")),
		Ins(T, row(I(5), I(1), "a"), row(I(6), I(23), "b"), row(I(7), I(2), "c")),
		Ins(T, row(I(5), I(23), "a"), row(I(6), I(1), "b"), row(I(7), I(2), "c")),
		// conversion error (string too long / not a number) at row 3 / 2
		Ins(T, row(I(5), I(1), "a"), row(I(6), I(2), "b"), row(I(7), I(3), "abcd")),
		Ins(T, row(I(5), I(1), "a"), row(I(6), S("x"), "b"), row(I(7), I(3), "c")),
		// NOT NULL at row 3 / 2
		Ins(T, row(I(5), I(1), "a"), row(I(6), I(2), "b"), row(n, I(3), "c")),
		Ins(T, row(I(5), I(1), "a"), row(n, I(2), "b"), row(I(7), I(3), "c")),
		InsIgnore(T, row(I(8), I(23), "a"), row(I(9), I(1), "abcd"), row(I(1), I(1), "z")),
		Repl(T, row(I(1), I(2), "r"), row(I(2), I(23), "r")),
		Odku(T, asg(1, Plus(1, 11)), row(I(1), I(0), "o"), row(I(2), I(0), "o")),
		Upd(T, asg(1, Plus(1, 11)), nil, -1, false, -1),
		Upd(T, asg(1, Plus(1, 11)), nil, 0, true, -1),
		Upd(T, asg(2, Concat(2, "x")), nil, -1, false, -1),
		Upd(T, asg(2, Concat(2, "x")), nil, 0, true, -1),
		Upd(T, asg(0, Lit(n)), wh(0, ">=", I(2)), -1, false, -1),
		Upd(T, asg(1, Lit(I(23))), wh(0, "=", I(2)), -1, false, -1),
		Del(T, nil, -1, false, -1), Del(T, wh(0, "=", I(1)), -1, false, -1),
		InsSel(T, []Expr{Plus(0, 4), Plus(1, 11), ColRef(2)}, nil),
		InsSel(T, []Expr{Plus(0, 4), ColRef(1), Concat(2, "y")}, nil),
	}
	return &Alphabet{s, ops}
}

// C15FeatureAlphabets returns the multi-structure table shapes of C15.
func C15FeatureAlphabets() []*Alphabet {
	return []*Alphabet{idxAlphabet(), fkAlphabet(), trigAlphabet(), chkAlphabet()}
}
