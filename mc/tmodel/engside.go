package tmodel

import (
	"errors"
	"fmt"
	"runtime/debug"
	"strings"

	"github.com/cockroachdb/apd/v3"
	"github.com/dolthub/go-mysql-server/sql"
	"github.com/dolthub/go-mysql-server/sql/plan"
	"github.com/dolthub/go-mysql-server/sql/types"
	"github.com/dolthub/vitess/go/mysql"

	"verif/mc/eng"
)

func init() {
	// a fresh engine per case makes the checks allocation-bound: with the default GC target more
	// than half of the CPU time is garbage collection (measured: 2.3x more cases per CPU-second)
	debug.SetGCPercent(800)
}

// ErrInjected is the storage error the C15 fault hook returns.
var ErrInjected = errors.New("verif: injected storage error")

// ErrClass maps an engine error to the model's error classes.
func ErrClass(err error) string {
	if err == nil {
		return ""
	}
	if strings.HasPrefix(err.Error(), "panic:") {
		return "panic"
	}
	if strings.Contains(err.Error(), ErrInjected.Error()) {
		return "storage"
	}
	u := sql.UnwrapError(err)
	switch {
	case sql.ErrPrimaryKeyViolation.Is(u), sql.ErrUniqueKeyViolation.Is(u), sql.ErrDuplicateEntry.Is(u):
		return "duplicate-key"
	case sql.ErrForeignKeyChildViolation.Is(u), sql.ErrForeignKeyParentViolation.Is(u):
		return "fk-violation"
	case sql.ErrCheckConstraintViolated.Is(u):
		return "check"
	case sql.ErrInsertIntoNonNullableProvidedNull.Is(u), sql.ErrInsertIntoNonNullableDefaultNullColumn.Is(u):
		return "not-null"
	case sql.ErrInvalidValue.Is(u), sql.ErrValueOutOfRange.Is(u), types.ErrLengthBeyondLimit.Is(u), sql.ErrTruncatedIncorrect.Is(u):
		return "convert"
	}
	if c := sql.CastSQLError(u); c != nil {
		switch c.Number() {
		case mysql.ERDupEntry:
			return "duplicate-key"
		case mysql.ERBadNullError:
			return "not-null"
		case 1644:
			return "signal"
		}
	}
	if strings.Contains(u.Error(), "errno 1644") {
		return "signal"
	}
	return "other:" + eng.ErrClass(u)
}

// Observed is what one statement did in the engine.
type Observed struct {
	SQL      string
	Err      string // class, "" = success
	ErrText  string
	Panic    bool
	Stack    string
	Affected int64
	InsertID int64
	HasInfo  bool // UPDATE info present
	Matched  int
	Changed  int
	Tables   map[string][]string // table -> sorted rows
}

func (o *Observed) State(s *Schema) string {
	var sb strings.Builder
	for _, t := range s.Tables {
		sb.WriteString(t.Name + ":" + strings.Join(o.Tables[t.Name], " ") + "\n")
	}
	return sb.String()
}

func (o *Observed) String(s *Schema) string {
	st := strings.ReplaceAll(strings.TrimSpace(o.State(s)), "\n", " | ")
	if o.Err != "" {
		return fmt.Sprintf("ERR[%s] %s; state=%s", o.Err, o.ErrText, st)
	}
	m := ""
	if o.HasInfo {
		m = fmt.Sprintf(" matched=%d changed=%d", o.Matched, o.Changed)
	}
	return fmt.Sprintf("OK affected=%d insert_id=%d%s state=%s", o.Affected, o.InsertID, m, st)
}

// Sys is a fresh engine holding a schema, together with the model state that mirrors it.
type Sys struct {
	Schema *Schema
	E      *eng.Engine
	S      *eng.Session
	M      *DB
}

// NewSys builds a fresh engine, creates the schema's tables and applies the seed statements to both
// sides (a seed statement on which engine and model disagree is a harness error).
func NewSys(s *Schema) *Sys {
	e := eng.New()
	y := &Sys{Schema: s, E: e, S: e.NewSession("root"), M: NewDB(s)}
	for _, q := range s.DDL() {
		y.S.MustExec(q)
	}
	for _, st := range s.Seed {
		obs, hit, _, _ := y.Apply(st)
		if hit == nil {
			panic(fmt.Sprintf("tmodel: seed statement %q of schema %s disagrees with the model: %s", obs.SQL, s.Name, obs.String(s)))
		}
	}
	return y
}

// ReadTables reads every table of the schema (sorted rendered rows).
func (y *Sys) ReadTables() map[string][]string {
	out := make(map[string][]string, len(y.Schema.Tables))
	for _, t := range y.Schema.Tables {
		r := y.S.Exec("select * from " + t.Name)
		if r.Err != nil {
			out[t.Name] = []string{"READ-ERROR " + r.Err.Error()}
			continue
		}
		out[t.Name] = r.Multiset()
	}
	return out
}

// Run executes one statement in the engine and observes result and state.
func (y *Sys) Run(st *Stmt) *Observed {
	q := st.SQL(y.Schema)
	r := y.S.Exec(q)
	o := &Observed{SQL: q}
	if r.Err != nil {
		o.Err = ErrClass(r.Err)
		o.ErrText = r.Err.Error()
		if r.Panic != nil {
			o.Panic, o.Stack = true, r.Stack
		}
	} else if ok, isOk := r.OK(); isOk {
		o.Affected, o.InsertID = int64(ok.RowsAffected), int64(ok.InsertID)
		if ui, has := ok.Info.(plan.UpdateInfo); has {
			o.HasInfo, o.Matched, o.Changed = true, ui.Matched, ui.Updated
		}
	} else {
		o.Err, o.ErrText = "other:no-ok-result", fmt.Sprintf("%d rows instead of an OK result", len(r.Rows))
	}
	o.Tables = y.ReadTables()
	return o
}

// Accepts reports whether the observation is the model outcome (result and state).
func Accepts(s *Schema, o *Outcome, obs *Observed) bool {
	if o.Err != obs.Err {
		return false
	}
	if o.Err == "" {
		if !o.AnyAffected && (obs.Affected < o.AffLo || obs.Affected > o.AffHi) {
			return false
		}
		if obs.InsertID != 0 {
			return false
		}
		if o.Matched >= 0 && obs.HasInfo && (obs.Matched != o.Matched || obs.Changed != o.Changed) {
			return false
		}
	}
	return o.DB.Key() == obs.State(s)
}

// Apply runs st in the engine, finds the model outcome that equals what the engine did and advances
// the model to it. hit == nil: the engine's behaviour is not allowed by the model (the model state
// is then left unchanged; all = the allowed outcomes unless capped).
func (y *Sys) Apply(st *Stmt) (obs *Observed, hit *Outcome, all []Outcome, capped bool) {
	return y.ApplyWith(st, Accepts)
}

// ApplyWith is Apply under a property's own acceptance relation.
func (y *Sys) ApplyWith(st *Stmt, acc func(*Schema, *Outcome, *Observed) bool) (obs *Observed, hit *Outcome, all []Outcome, capped bool) {
	obs = y.Run(st)
	hit, all, capped = y.M.Exec(st, func(o *Outcome) bool { return acc(y.Schema, o, obs) })
	if hit != nil {
		y.M = hit.DB
	}
	return
}

// Disagreement classifies how the observation departs from the allowed outcomes.
type Disagreement struct {
	Clause string // error-class | contents | rows-affected | matched-changed | insert-id | no-panic
	Kind   string
}

func Classify(s *Schema, all []Outcome, obs *Observed) Disagreement {
	if obs.Panic {
		return Disagreement{"no-panic", "panic"}
	}
	anyOK, anyErr, dupAllowed, sameClass := false, false, false, false
	for i := range all {
		if all[i].Err == "" {
			anyOK = true
		} else {
			anyErr = true
			dupAllowed = dupAllowed || all[i].Err == "duplicate-key"
			sameClass = sameClass || all[i].Err == obs.Err
		}
	}
	st := obs.State(s)
	if obs.Err != "" {
		if !sameClass {
			switch {
			case obs.Err == "duplicate-key":
				return Disagreement{"error-class", "false-duplicate"}
			case !anyErr:
				return Disagreement{"error-class", "unexpected-error:" + obs.Err}
			default:
				return Disagreement{"error-class", "wrong-error:" + obs.Err}
			}
		}
		return Disagreement{"contents", "failed-statement-changed-state"}
	}
	if !anyOK {
		if dupAllowed {
			return Disagreement{"error-class", "missed-duplicate"}
		}
		return Disagreement{"error-class", "missed-error"}
	}
	stateOK, affOK, infoOK := false, false, false
	for i := range all {
		o := &all[i]
		if o.Err != "" || o.DB.Key() != st {
			continue
		}
		stateOK = true
		if o.AnyAffected || (obs.Affected >= o.AffLo && obs.Affected <= o.AffHi) {
			affOK = true
			if !(o.Matched >= 0 && obs.HasInfo && (obs.Matched != o.Matched || obs.Changed != o.Changed)) {
				infoOK = true
			}
		}
	}
	switch {
	case !stateOK:
		return Disagreement{"contents", "differs-from-model"}
	case !affOK:
		return Disagreement{"rows-affected", "wrong-count"}
	case !infoOK:
		return Disagreement{"matched-changed", "wrong-count"}
	case obs.InsertID != 0:
		return Disagreement{"insert-id", "nonzero-without-auto-increment"}
	}
	return Disagreement{"contents", "differs-from-model"}
}

func DescribeAll(all []Outcome, capped bool) string {
	p := make([]string, 0, len(all))
	for i := range all {
		if i == 6 {
			p = append(p, fmt.Sprintf("… %d more", len(all)-6))
			break
		}
		p = append(p, all[i].String())
	}
	s := strings.Join(p, "  OR  ")
	if capped {
		s += "  (order enumeration capped)"
	}
	return s
}

// FromEngine converts an engine row into model values (by the column kinds of def).
func FromEngine(def *TableDef, row sql.Row) []V {
	out := make([]V, len(row))
	for i, x := range row {
		if x == nil {
			out[i] = N()
			continue
		}
		switch def.Cols[i].Kind {
		case KInt:
			var n int64
			fmt.Sscan(eng.FormatValue(x), &n)
			out[i] = I(n)
		case KStr:
			s := eng.FormatValue(x)
			out[i] = S(strings.TrimSuffix(strings.TrimPrefix(s, "'"), "'"))
		case KDec:
			var txt string
			switch d := x.(type) {
			case *apd.Decimal:
				txt = d.Text('f')
			case apd.Decimal:
				txt = d.Text('f')
			default:
				txt = eng.FormatValue(x)
			}
			u, sc, ok := parseDec(txt)
			if !ok {
				panic("tmodel: cannot read decimal " + txt)
			}
			out[i] = D(u, sc)
		}
	}
	return out
}

// EngineRows reads a table's rows from the engine as model values.
func (y *Sys) EngineRows(def *TableDef) ([][]V, error) {
	r := y.S.Exec("select * from " + def.Name)
	if r.Err != nil {
		return nil, r.Err
	}
	out := make([][]V, len(r.Rows))
	for i, row := range r.Rows {
		out[i] = FromEngine(def, row)
	}
	return out, nil
}
