package tmodel

import (
	"fmt"
	"sort"
	"strings"
)

// TState is the content of one table: rows in storage order. Rows are immutable (always replaced,
// never modified in place), so Clone only copies the slice of rows. A nil row is a tombstone used
// while a DELETE is being enumerated; statements compact before they return.
type TState struct {
	Def  *TableDef
	Rows [][]V
}

// DB is a model state.
type DB struct {
	S *Schema
	T map[string]*TState
	// TriggerOnUnchanged: do UPDATE triggers fire for matched rows whose values do not change?
	// (MySQL: yes. The model enumerates both where a schema has update triggers, see Exec.)
	TriggerOnUnchanged bool
}

func NewDB(s *Schema) *DB {
	db := &DB{S: s, T: map[string]*TState{}, TriggerOnUnchanged: true}
	for _, t := range s.Tables {
		db.T[t.Name] = &TState{Def: t}
	}
	return db
}

func (db *DB) Clone() *DB {
	c := &DB{S: db.S, T: make(map[string]*TState, len(db.T)), TriggerOnUnchanged: db.TriggerOnUnchanged}
	for n, t := range db.T {
		c.T[n] = &TState{Def: t.Def, Rows: append([][]V(nil), t.Rows...)}
	}
	return c
}

// TableRows renders the rows of one table sorted (comparable with eng Result.Multiset()).
func (db *DB) TableRows(name string) []string {
	t := db.T[name]
	out := make([]string, 0, len(t.Rows))
	for _, r := range t.Rows {
		if r != nil {
			out = append(out, FmtRow(r))
		}
	}
	sort.Strings(out)
	return out
}

// Key is the canonical rendering of the whole state: per table (schema order) the sorted rows.
func (db *DB) Key() string {
	var sb strings.Builder
	for _, t := range db.S.Tables {
		sb.WriteString(t.Name)
		sb.WriteString(":")
		sb.WriteString(strings.Join(db.TableRows(t.Name), " "))
		sb.WriteString("\n")
	}
	return sb.String()
}

func (db *DB) compact() {
	for _, t := range db.T {
		k := 0
		for _, r := range t.Rows {
			if r != nil {
				t.Rows[k] = r
				k++
			}
		}
		t.Rows = t.Rows[:k]
	}
}

// ---------------------------------------------------------------------------------------------
// keys

// KeyEqual: do two rows carry equal values of a unique key (under the columns' collations and the
// key's prefix lengths)? A NULL member makes the key distinct from every other key.
func KeyEqual(def *TableDef, ix Index, r1, r2 []V) bool {
	for i, c := range ix.Cols {
		a, b := r1[c], r2[c]
		if a.Null || b.Null {
			return false
		}
		p := 0
		if ix.Prefix != nil {
			p = ix.Prefix[i]
		}
		if Cmp(a, b, def.Cols[c].Coll, p) != 0 {
			return false
		}
	}
	return true
}

// conflict returns the first stored row (other than index skip) that duplicates `row` on a unique
// key, checking the primary key first and then the unique indexes in declaration order.
func (t *TState) conflict(row []V, skip int) (int, string) {
	for _, k := range t.Def.UniqueKeys() {
		for i, r := range t.Rows {
			if i == skip || r == nil {
				continue
			}
			if KeyEqual(t.Def, k, r, row) {
				return i, k.Name
			}
		}
	}
	return -1, ""
}

// KeyViolations lists the pairs of rows of a table content that duplicate each other on a unique
// key — the C14 state invariant, evaluated on rows read from the ENGINE.
func KeyViolations(def *TableDef, rows [][]V) []string {
	var out []string
	for _, k := range def.UniqueKeys() {
		for i := 0; i < len(rows); i++ {
			for j := i + 1; j < len(rows); j++ {
				if KeyEqual(def, k, rows[i], rows[j]) {
					out = append(out, fmt.Sprintf("%s: %s and %s", k.Name, FmtRow(rows[i]), FmtRow(rows[j])))
				}
			}
		}
	}
	sort.Strings(out)
	return out
}

// ---------------------------------------------------------------------------------------------
// row-level primitives (constraints, cascades, triggers). They mutate db (a working clone).

func (db *DB) fireTrigger(t *TState, event string, row []V) *MErr {
	for _, tr := range t.Def.Triggers {
		if tr.Event != event {
			continue
		}
		if tr.Audit != "" {
			au := db.T[tr.Audit]
			au.Rows = append(au.Rows, []V{S(event[:1]), row[0], row[1]})
		}
		if tr.SigCol >= 0 && !row[tr.SigCol].Null && Cmp(row[tr.SigCol], tr.SigVal, t.Def.Cols[tr.SigCol].Coll, 0) == 0 {
			return &MErr{"signal", "trigger after " + event}
		}
	}
	return nil
}

func fkMatch(child []V, ccols []int, parent []V, pcols []int) bool {
	for i := range ccols {
		a, b := child[ccols[i]], parent[pcols[i]]
		if a.Null || b.Null || Cmp(a, b, Bin, 0) != 0 {
			return false
		}
	}
	return true
}

func (db *DB) checkParent(t *TState, row []V) *MErr {
	for _, fk := range t.Def.FKs {
		null := false
		for _, c := range fk.Cols {
			null = null || row[c].Null
		}
		if null {
			continue
		}
		found := false
		for _, p := range db.T[fk.Parent].Rows {
			if p != nil && fkMatch(row, fk.Cols, p, fk.PCols) {
				found = true
				break
			}
		}
		if !found {
			return &MErr{"fk-violation", fk.Name + ": no parent"}
		}
	}
	return nil
}

func (db *DB) checkRow(t *TState, row []V) *MErr {
	for _, c := range t.Def.Checks {
		x := row[c.Col]
		if x.Null {
			continue
		}
		if !cmpOp(Cmp(x, c.V, t.Def.Cols[c.Col].Coll, 0), c.Op) {
			return &MErr{"check", t.Def.Cols[c.Col].Name}
		}
	}
	return nil
}

// traceWrites, when set, collects the rows written to table traceTable (classification only; the
// model is used from one goroutine).
var (
	traceWrites *[][]V
	traceTable  string
)

func traced(name string, row []V) {
	if traceWrites != nil && name == traceTable {
		*traceWrites = append(*traceWrites, row)
	}
}

func (db *DB) insRow(name string, row []V) *MErr {
	t := db.T[name]
	if i, k := t.conflict(row, -1); i >= 0 {
		return &MErr{"duplicate-key", k}
	}
	if e := db.checkParent(t, row); e != nil {
		return e
	}
	t.Rows = append(t.Rows, row)
	traced(name, row)
	return db.fireTrigger(t, "insert", row)
}

// children visits every (child table, fk) that references table `name`.
func (db *DB) children(name string, f func(c *TState, fk FK) *MErr) *MErr {
	for _, td := range db.S.Tables {
		for _, fk := range td.FKs {
			if fk.Parent == name {
				if e := f(db.T[td.Name], fk); e != nil {
					return e
				}
			}
		}
	}
	return nil
}

func (db *DB) delRow(name string, idx int, triggers bool) *MErr {
	t := db.T[name]
	old := t.Rows[idx]
	if e := db.children(name, func(c *TState, fk FK) *MErr {
		for j, cr := range c.Rows {
			if cr == nil || !fkMatch(cr, fk.Cols, old, fk.PCols) {
				continue
			}
			if fk.OnDelete != "CASCADE" {
				return &MErr{"fk-violation", fk.Name + ": child rows exist"}
			}
			// cascaded actions do not activate triggers
			if e := db.delRow(c.Def.Name, j, false); e != nil {
				return e
			}
		}
		return nil
	}); e != nil {
		return e
	}
	t.Rows[idx] = nil
	if triggers {
		return db.fireTrigger(t, "delete", old)
	}
	return nil
}

func (db *DB) updRow(name string, idx int, nr []V, triggers bool) *MErr {
	t := db.T[name]
	old := t.Rows[idx]
	if i, k := t.conflict(nr, idx); i >= 0 {
		return &MErr{"duplicate-key", k}
	}
	for _, fk := range t.Def.FKs {
		changed := false
		for _, c := range fk.Cols {
			changed = changed || !old[c].Same(nr[c])
		}
		if changed {
			if e := db.checkParent(t, nr); e != nil {
				return e
			}
		}
	}
	t.Rows[idx] = nr
	traced(name, nr)
	if e := db.children(name, func(c *TState, fk FK) *MErr {
		changed := false
		for _, pc := range fk.PCols {
			changed = changed || !old[pc].Same(nr[pc])
		}
		if !changed {
			return nil
		}
		for j, cr := range c.Rows {
			if cr == nil || !fkMatch(cr, fk.Cols, old, fk.PCols) {
				continue
			}
			if fk.OnUpdate != "CASCADE" {
				return &MErr{"fk-violation", fk.Name + ": child rows exist"}
			}
			ncr := append([]V(nil), cr...)
			for i, cc := range fk.Cols {
				ncr[cc] = nr[fk.PCols[i]]
			}
			if e := db.updRow(c.Def.Name, j, ncr, false); e != nil {
				return e
			}
		}
		return nil
	}); e != nil {
		return e
	}
	if triggers {
		return db.fireTrigger(t, "update", nr)
	}
	return nil
}

// ---------------------------------------------------------------------------------------------
// statements

// Outcome is one allowed result of a statement.
type Outcome struct {
	Err          string // "" = success, otherwise the error class
	AffLo, AffHi int64  // allowed RowsAffected (inclusive range)
	AnyAffected  bool   // the count is unspecified (TRUNCATE)
	Matched      int    // UPDATE: rows matched / changed; -1 otherwise
	Changed      int
	DB           *DB // state after the statement (the state before it when Err != "")
}

func (o *Outcome) String() string {
	if o.Err != "" {
		return "ERR[" + o.Err + "] state unchanged"
	}
	a := fmt.Sprintf("%d", o.AffLo)
	if o.AffHi != o.AffLo {
		a = fmt.Sprintf("%d..%d", o.AffLo, o.AffHi)
	}
	if o.AnyAffected {
		a = "any"
	}
	m := ""
	if o.Matched >= 0 {
		m = fmt.Sprintf(" matched=%d changed=%d", o.Matched, o.Changed)
	}
	return fmt.Sprintf("OK affected=%s%s state=%s", a, m, strings.ReplaceAll(strings.TrimSpace(o.DB.Key()), "\n", " | "))
}

func (o *Outcome) sig() string {
	return fmt.Sprintf("%s|%d|%d|%v|%d|%d|%s", o.Err, o.AffLo, o.AffHi, o.AnyAffected, o.Matched, o.Changed, o.DB.Key())
}

// MaxNodes bounds the enumeration of row processing orders of one statement.
const MaxNodes = 60000

type emitter struct {
	pre    *DB
	accept func(*Outcome) bool
	hit    *Outcome
	all    []Outcome
	sigs   map[string]bool
	nodes  int
	capped bool
	stop   bool
}

func (em *emitter) emit(o Outcome) {
	if em.stop {
		return
	}
	if o.Err == "" {
		o.DB.compact()
	}
	s := o.sig()
	if em.sigs[s] {
		return
	}
	em.sigs[s] = true
	em.all = append(em.all, o)
	if em.accept != nil && em.accept(&em.all[len(em.all)-1]) {
		em.hit = &em.all[len(em.all)-1]
		em.stop = true
	}
}

func (em *emitter) fail(e *MErr) {
	em.emit(Outcome{Err: e.Class, Matched: -1, DB: em.pre})
}

func (em *emitter) node() bool {
	em.nodes++
	if em.nodes > MaxNodes {
		em.capped = true
		em.stop = true
	}
	return !em.stop
}

// Exec computes the allowed outcomes of st in state db (db is not modified). Outcomes are produced
// lazily, the one following the canonical row processing order (primary key order / storage order)
// first; enumeration stops at the first outcome for which accept returns true (hit). Without a hit
// `all` holds every allowed outcome, unless capped.
func (db *DB) Exec(st *Stmt, accept func(*Outcome) bool) (hit *Outcome, all []Outcome, capped bool) {
	em := &emitter{pre: db, accept: accept, sigs: map[string]bool{}}
	run := func(d *DB) {
		switch st.Kind {
		case Insert, Replace:
			d.execInsert(st, em)
		case Update:
			d.execUpdate(st, em)
		case Delete:
			d.execDelete(st, em)
		case InsertSelect:
			d.execInsertSelect(st, em)
		case Truncate:
			w := d.Clone()
			w.T[st.Table].Rows = nil
			em.emit(Outcome{AnyAffected: true, Matched: -1, DB: w})
		}
	}
	run(db)
	hasUpdTrig := false
	for _, tr := range db.T[st.Table].Def.Triggers {
		hasUpdTrig = hasUpdTrig || tr.Event == "update"
	}
	if !em.stop && hasUpdTrig && (st.Kind == Update || len(st.OnDup) > 0) {
		// the other answer to "do update triggers fire for unchanged rows" is accepted as well:
		// that question belongs to C23, not to the properties that use this model
		alt := db.Clone()
		alt.TriggerOnUnchanged = !db.TriggerOnUnchanged
		em.pre = db
		run(alt)
		for i := range em.all {
			em.all[i].DB.TriggerOnUnchanged = db.TriggerOnUnchanged
		}
	}
	return em.hit, em.all, em.capped
}

func applyAssigns(def *TableDef, as []Assign, old, proposed []V, ignore bool) ([]V, *MErr) {
	nr := append([]V(nil), old...)
	for _, a := range as {
		// MySQL evaluates single-table assignments left to right over the row as updated so far
		v, e := def.Cols[a.Col].Conv(a.E.Eval(nr, proposed), ignore)
		if e != nil {
			return nil, e
		}
		nr[a.Col] = v
	}
	return nr, nil
}

func (db *DB) convRow(def *TableDef, lit []V, ignore bool) ([]V, *MErr) {
	if len(lit) != len(def.Cols) {
		panic("tmodel: row width")
	}
	row := make([]V, len(lit))
	for i := range lit {
		v, e := def.Cols[i].Conv(lit[i], ignore)
		if e != nil {
			return nil, e
		}
		row[i] = v
	}
	return row, nil
}

func ignorable(e *MErr) bool {
	switch e.Class {
	case "duplicate-key", "check", "fk-violation", "not-null", "convert":
		return true
	}
	return false
}

// insertRows is INSERT / INSERT IGNORE / REPLACE / INSERT … ON DUPLICATE KEY UPDATE of already
// evaluated rows, one after the other, on the working state w. It returns the affected range.
func (w *DB) insertRows(st *Stmt, rows [][]V) (lo, hi int64, err *MErr) {
	t := w.T[st.Table]
	def := t.Def
	for _, lit := range rows {
		row, e := w.convRow(def, lit, st.Ignore)
		if e == nil {
			e = w.checkRow(t, row)
		}
		if e != nil {
			if st.Ignore && ignorable(e) {
				continue
			}
			return 0, 0, e
		}
		switch {
		case st.Kind == Replace:
			deleted, identical := 0, false
			for {
				ci, _ := t.conflict(row, -1)
				if ci < 0 {
					break
				}
				identical = SameRow(t.Rows[ci], row)
				if e := w.delRow(st.Table, ci, true); e != nil {
					return 0, 0, e
				}
				w.compact()
				deleted++
			}
			if e := w.insRow(st.Table, row); e != nil {
				return 0, 0, e
			}
			hi += int64(1 + deleted)
			if deleted == 1 && identical {
				// MySQL executes this as an update that changes nothing and reports 1; the manual
				// defines the count as deleted + inserted = 2: both are accepted
				lo += 1
			} else {
				lo += int64(1 + deleted)
			}
		default:
			ci, _ := t.conflict(row, -1)
			switch {
			case ci < 0:
				if e := w.insRow(st.Table, row); e != nil {
					if st.Ignore && ignorable(e) {
						w.compact()
						continue
					}
					return 0, 0, e
				}
				lo, hi = lo+1, hi+1
			case len(st.OnDup) > 0:
				old := t.Rows[ci]
				nr, e := applyAssigns(def, st.OnDup, old, row, st.Ignore)
				if e == nil {
					e = w.checkRow(t, nr)
				}
				if e != nil {
					return 0, 0, e
				}
				if SameRow(old, nr) {
					if w.TriggerOnUnchanged {
						if e := w.fireTrigger(t, "update", nr); e != nil {
							return 0, 0, e
						}
					}
					continue // affected += 0
				}
				if e := w.updRow(st.Table, ci, nr, true); e != nil {
					return 0, 0, e
				}
				lo, hi = lo+2, hi+2
			case st.Ignore:
				continue
			default:
				_, k := t.conflict(row, -1)
				return 0, 0, &MErr{"duplicate-key", k}
			}
		}
	}
	return lo, hi, nil
}

func (db *DB) execInsert(st *Stmt, em *emitter) {
	w := db.Clone()
	lo, hi, e := w.insertRows(st, st.Rows)
	if e != nil {
		em.fail(e)
		return
	}
	em.emit(Outcome{AffLo: lo, AffHi: hi, Matched: -1, DB: w})
}

// execInsertSelect: INSERT INTO t SELECT … FROM t — the SELECT is evaluated on the state before the
// statement (MySQL materialises it), the rows are then inserted in an unspecified order.
func (db *DB) execInsertSelect(st *Stmt, em *emitter) {
	t := db.T[st.Table]
	var src [][]V
	for _, r := range t.Rows {
		if st.Where != nil && !st.Where.True(t.Def, r) {
			continue
		}
		lit := make([]V, len(st.Proj))
		for i, e := range st.Proj {
			lit[i] = e.Eval(r, nil)
		}
		src = append(src, lit)
	}
	ins := &Stmt{Kind: Insert, Table: st.Table, Ignore: st.Ignore, Order: -1, Limit: -1}
	if !st.Ignore {
		// success and the final state do not depend on the order; the error class may: every
		// class some order can hit first is allowed
		w := db.Clone()
		lo, hi, e := w.insertRows(ins, src)
		if e == nil {
			em.emit(Outcome{AffLo: lo, AffHi: hi, Matched: -1, DB: w})
			return
		}
		em.fail(e)
		for i := range src {
			rot := append(append([][]V{}, src[i:]...), src[:i]...)
			w := db.Clone()
			if _, _, e := w.insertRows(ins, rot); e != nil {
				em.fail(e)
			}
		}
		return
	}
	// IGNORE: which of several mutually conflicting rows is kept depends on the order
	n := len(src)
	if n > 7 {
		w := db.Clone()
		lo, hi, e := w.insertRows(ins, src)
		if e != nil {
			em.fail(e)
		} else {
			em.emit(Outcome{AffLo: lo, AffHi: hi, Matched: -1, DB: w})
		}
		em.capped = true
		return
	}
	perm := make([]int, 0, n)
	used := make([]bool, n)
	var rec func()
	rec = func() {
		if !em.node() {
			return
		}
		if len(perm) == n {
			rows := make([][]V, n)
			for i, p := range perm {
				rows[i] = src[p]
			}
			w := db.Clone()
			lo, hi, e := w.insertRows(ins, rows)
			if e != nil {
				em.fail(e)
			} else {
				em.emit(Outcome{AffLo: lo, AffHi: hi, Matched: -1, DB: w})
			}
			return
		}
		for i := 0; i < n && !em.stop; i++ {
			if !used[i] {
				used[i] = true
				perm = append(perm, i)
				rec()
				perm = perm[:len(perm)-1]
				used[i] = false
			}
		}
	}
	rec()
}

// targets returns the indices of the rows satisfying WHERE in canonical processing order (primary
// key order for keyed tables, storage order for keyless ones) and, with ORDER BY, a rank per
// index (equal rank = tie) in the requested direction.
func (db *DB) targets(st *Stmt) (m []int, rank map[int]int) {
	t := db.T[st.Table]
	def := t.Def
	for i, r := range t.Rows {
		if r != nil && (st.Where == nil || st.Where.True(def, r)) {
			m = append(m, i)
		}
	}
	if !def.Keyless() {
		sort.SliceStable(m, func(x, y int) bool {
			a, b := t.Rows[m[x]], t.Rows[m[y]]
			for _, c := range def.PK {
				if k := Cmp(a[c], b[c], def.Cols[c].Coll, 0); k != 0 {
					return k < 0
				}
			}
			return false
		})
	}
	if st.Order < 0 {
		return m, nil
	}
	c := st.Order
	less := func(a, b []V) int { // NULLs first ascending
		x, y := a[c], b[c]
		switch {
		case x.Null && y.Null:
			return 0
		case x.Null:
			return -1
		case y.Null:
			return 1
		}
		return Cmp(x, y, def.Cols[c].Coll, 0)
	}
	sorted := append([]int(nil), m...)
	sort.SliceStable(sorted, func(x, y int) bool {
		k := less(t.Rows[sorted[x]], t.Rows[sorted[y]])
		if st.Desc {
			return k > 0
		}
		return k < 0
	})
	rank = map[int]int{}
	rk := 0
	for i, idx := range sorted {
		if i > 0 && less(t.Rows[sorted[i-1]], t.Rows[idx]) != 0 {
			rk++
		}
		rank[idx] = rk
	}
	// canonical order: by rank, ties in canonical order
	sort.SliceStable(m, func(x, y int) bool { return rank[m[x]] < rank[m[y]] })
	return m, rank
}

func eligible(i int, m []int, mask uint64, rank map[int]int) bool {
	if rank == nil {
		return true
	}
	for _, j := range m {
		if mask&(1<<uint(j)) == 0 && rank[j] < rank[i] {
			return false
		}
	}
	return true
}

func (db *DB) setsKey(st *Stmt) bool {
	def := db.T[st.Table].Def
	for _, k := range def.UniqueKeys() {
		for _, c := range k.Cols {
			for _, a := range st.Set {
				if a.Col == c {
					return true
				}
			}
		}
	}
	return false
}

func (db *DB) execUpdate(st *Stmt, em *emitter) {
	t := db.T[st.Table]
	def := t.Def
	if len(t.Rows) > 60 {
		panic("tmodel: table too large for the order enumeration")
	}
	m, rank := db.targets(st)
	limit := len(m)
	if st.Limit >= 0 && st.Limit < limit {
		limit = st.Limit
	}
	// one row: evaluate and apply
	step := func(w *DB, i int) (changed bool, e *MErr) {
		old := w.T[st.Table].Rows[i]
		nr, e := applyAssigns(def, st.Set, old, nil, false)
		if e == nil {
			e = w.checkRow(w.T[st.Table], nr)
		}
		if e != nil {
			return false, e
		}
		if SameRow(old, nr) {
			if w.TriggerOnUnchanged {
				return false, w.fireTrigger(w.T[st.Table], "update", nr)
			}
			return false, nil
		}
		return true, w.updRow(st.Table, i, nr, true)
	}
	if limit == len(m) && !db.setsKey(st) {
		// no key column is assigned and every matched row is processed: rows do not interact,
		// the result does not depend on the order; a failing row fails the statement in every
		// order, and the class reported is that of whichever failing row comes first
		w := db.Clone()
		changed := 0
		failed := false
		for _, i := range m {
			ww := w
			if failed {
				ww = db.Clone()
			}
			ch, e := step(ww, i)
			if e != nil {
				em.fail(e)
				failed = true
				continue
			}
			if ch {
				changed++
			}
		}
		if !failed {
			em.emit(Outcome{AffLo: int64(changed), AffHi: int64(changed), Matched: len(m), Changed: changed, DB: w})
		}
		return
	}
	seen := map[uint64]bool{}
	var dfs func(mask uint64, w *DB, done, changed int)
	dfs = func(mask uint64, w *DB, done, changed int) {
		if !em.node() {
			return
		}
		if done == limit {
			em.emit(Outcome{AffLo: int64(changed), AffHi: int64(changed), Matched: done, Changed: changed, DB: w.Clone()})
			return
		}
		if seen[mask] {
			return
		}
		seen[mask] = true
		for _, i := range m {
			if em.stop {
				return
			}
			bit := uint64(1) << uint(i)
			if mask&bit != 0 || !eligible(i, m, mask, rank) {
				continue
			}
			w2 := w.Clone()
			ch, e := step(w2, i)
			if e != nil {
				em.fail(e)
				continue
			}
			c := changed
			if ch {
				c++
			}
			dfs(mask|bit, w2, done+1, c)
		}
	}
	dfs(0, db.Clone(), 0, 0)
}

func (db *DB) execDelete(st *Stmt, em *emitter) {
	t := db.T[st.Table]
	if len(t.Rows) > 60 {
		panic("tmodel: table too large for the order enumeration")
	}
	m, rank := db.targets(st)
	limit := len(m)
	if st.Limit >= 0 && st.Limit < limit {
		limit = st.Limit
	}
	canFail := false
	for _, tr := range t.Def.Triggers {
		canFail = canFail || (tr.Event == "delete" && tr.SigCol >= 0)
	}
	db.children(st.Table, func(c *TState, fk FK) *MErr {
		canFail = canFail || fk.OnDelete != "CASCADE"
		return nil
	})
	if limit == len(m) && !canFail {
		w := db.Clone()
		for _, i := range m {
			if e := w.delRow(st.Table, i, true); e != nil {
				em.fail(e)
				return
			}
		}
		em.emit(Outcome{AffLo: int64(len(m)), AffHi: int64(len(m)), Matched: -1, DB: w})
		return
	}
	seen := map[uint64]bool{}
	var dfs func(mask uint64, w *DB, done int)
	dfs = func(mask uint64, w *DB, done int) {
		if !em.node() {
			return
		}
		if done == limit {
			em.emit(Outcome{AffLo: int64(done), AffHi: int64(done), Matched: -1, DB: w.Clone()})
			return
		}
		if seen[mask] {
			return
		}
		seen[mask] = true
		for _, i := range m {
			if em.stop {
				return
			}
			bit := uint64(1) << uint(i)
			if mask&bit != 0 || !eligible(i, m, mask, rank) {
				continue
			}
			w2 := w.Clone()
			if e := w2.delRow(st.Table, i, true); e != nil {
				em.fail(e)
				continue
			}
			dfs(mask|bit, w2, done+1)
		}
	}
	dfs(0, db.Clone(), 0)
}
