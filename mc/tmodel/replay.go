package tmodel

import (
	"fmt"
	"sort"
	"strings"
)

// Replayer rebuilds the state reached by a history on a fresh engine. The model state of a history
// that was already validated in this process is cached, so that replaying it only executes the
// statements (the engine is deterministic; the cache never replaces a check, every history is
// checked when it is the one being extended).
type Replayer struct {
	A *Alphabet
	// Accept is the acceptance relation under which prefixes are replayed (default Accepts).
	Accept func(*Schema, *Outcome, *Observed) bool
	cache  map[string]*DB
}

func NewReplayer(a *Alphabet) *Replayer {
	return &Replayer{A: a, Accept: Accepts, cache: map[string]*DB{}}
}

func hkey(h []int) string { return fmt.Sprint(h) }

// Prefix returns a fresh system in the state after h. ok=false: some step of h is not allowed by the
// model (such a history is never extended by the explorers).
func (rp *Replayer) Prefix(h []int) (y *Sys, ok bool) {
	y = NewSys(rp.A.Schema)
	if len(h) == 0 {
		return y, true
	}
	if m, have := rp.cache[hkey(h)]; have {
		for _, op := range h {
			y.S.Exec(rp.A.Ops[op].SQL(rp.A.Schema))
		}
		y.M = m
		return y, true
	}
	for _, op := range h {
		if _, hit, _, _ := y.ApplyWith(rp.A.Ops[op], rp.Accept); hit == nil {
			return y, false
		}
	}
	rp.Remember(h, y.M)
	return y, true
}

func (rp *Replayer) Remember(h []int, m *DB) {
	if len(rp.cache) < 400000 {
		rp.cache[hkey(h)] = m
	}
}

// ConcatCollision reports whether two different primary-key tuples among the given rows print to
// the same string when their members are concatenated ("1"+"23" = "12"+"3") — a classifying
// coordinate for composite keys.
func ConcatCollision(def *TableDef, rowsets ...[][]V) bool {
	if len(def.PK) < 2 {
		return false
	}
	seen := map[string]string{}
	for _, rows := range rowsets {
		for _, r := range rows {
			if r == nil {
				continue
			}
			var cat, sep strings.Builder
			for _, c := range def.PK {
				cat.WriteString(strings.Trim(r[c].Fmt(), "'"))
				sep.WriteString(r[c].Fmt() + "\x00")
			}
			if prev, ok := seen[cat.String()]; ok && prev != sep.String() {
				return true
			}
			seen[cat.String()] = sep.String()
		}
	}
	return false
}

// StmtRows returns the rows a statement proposes for insertion (converted leniently), for
// classification only.
func StmtRows(def *TableDef, st *Stmt) [][]V {
	var out [][]V
	for _, lit := range st.Rows {
		row := make([]V, len(lit))
		for i := range lit {
			v, e := def.Cols[i].Conv(lit[i], true)
			if e != nil {
				v = lit[i]
			}
			row[i] = v
		}
		out = append(out, row)
	}
	return out
}

// candidateRows returns the rows an UPDATE / ON DUPLICATE KEY UPDATE / INSERT … SELECT would try to
// write, each evaluated on the state before the statement (for classification only).
func candidateRows(def *TableDef, st *Stmt, pre *DB) [][]V {
	var out [][]V
	t := pre.T[st.Table]
	switch {
	case st.Kind == Update:
		for _, r := range t.Rows {
			if r != nil && (st.Where == nil || st.Where.True(def, r)) {
				if nr, e := applyAssigns(def, st.Set, r, nil, true); e == nil {
					out = append(out, nr)
				}
			}
		}
	case st.Kind == InsertSelect:
		for _, r := range t.Rows {
			if r != nil && (st.Where == nil || st.Where.True(def, r)) {
				lit := make([]V, len(st.Proj))
				for i, e := range st.Proj {
					lit[i] = e.Eval(r, nil)
				}
				out = append(out, StmtRows(def, &Stmt{Rows: [][]V{lit}})...)
			}
		}
	case len(st.OnDup) > 0:
		for _, p := range StmtRows(def, st) {
			for _, r := range t.Rows {
				if r == nil {
					continue
				}
				if nr, e := applyAssigns(def, st.OnDup, r, p, true); e == nil {
					out = append(out, nr)
				}
			}
		}
	}
	return out
}

// Subject builds the classifying coordinates of a disagreement on statement st in state pre.
func Subject(s *Schema, st *Stmt, pre *DB, all []Outcome) map[string]string {
	def := s.Table(st.Table)
	sub := map[string]string{"schema": s.Name, "stmt": st.KindName(), "shape": st.Shape(s)}
	if len(def.PK) >= 2 {
		sets := [][][]V{pre.T[st.Table].Rows, StmtRows(def, st), candidateRows(def, st, pre)}
		for i := range all {
			sets = append(sets, all[i].DB.T[st.Table].Rows)
		}
		sub["concat_collision"] = "n"
		if ConcatCollision(def, sets...) {
			sub["concat_collision"] = "y"
		}
	}
	if uks := def.UniqueKeys(); len(uks) > 0 && (len(uks) > 1 || uks[0].Name != "PRIMARY") {
		// does the statement (canonical row order) write one value of a secondary unique key more
		// than once (a row rewritten keeping the value, or two rows competing for it)?
		var writes [][]V
		traceWrites, traceTable = &writes, st.Table
		pre.Exec(st, func(*Outcome) bool { return true })
		traceWrites = nil
		sub["uk_value_rewritten"] = "n"
		for _, k := range uks {
			if k.Name == "PRIMARY" {
				continue
			}
			for i := range writes {
				for j := i + 1; j < len(writes); j++ {
					if KeyEqual(def, k, writes[i], writes[j]) {
						sub["uk_value_rewritten"] = "y"
					}
				}
			}
		}
	}
	if st.Kind == Replace {
		// how many stored rows does one new row replace at most (1 = plain replace, 2+ = the new
		// row collides with different rows on different unique keys)
		w, most := pre.Clone(), 0
		t := w.T[st.Table]
		for _, row := range StmtRows(def, st) {
			n := 0
			for {
				ci, _ := t.conflict(row, -1)
				if ci < 0 {
					break
				}
				t.Rows[ci] = nil
				n++
			}
			t.Rows = append(t.Rows, row)
			if n > most {
				most = n
			}
		}
		sub["replaces_max"] = fmt.Sprint(most)
		if most >= 2 {
			sub["replaces_max"] = "2+"
		}
	}
	return sub
}

func SortedKeys(m map[string]int) []string {
	out := make([]string, 0, len(m))
	for k := range m {
		out = append(out, k)
	}
	sort.Strings(out)
	return out
}
