package tmodel

import (
	"fmt"
	"math/big"
	"strconv"
	"strings"
	"unicode/utf8"
)

// MErr is a model-side statement error: only its class is compared with the engine.
type MErr struct {
	Class string // duplicate-key | not-null | convert | check | signal | fk-violation
	What  string
}

func (e *MErr) Error() string { return e.Class + ": " + e.What }

type Col struct {
	Name    string
	Kind    Kind
	Len     int  // KStr: varchar(Len)
	Coll    Coll // KStr
	Prec    int  // KDec
	Scale   int  // KDec
	NotNull bool
}

func (c *Col) typeSQL() string {
	switch c.Kind {
	case KStr:
		return fmt.Sprintf("varchar(%d) collate %s", c.Len, c.Coll.Name())
	case KDec:
		return fmt.Sprintf("decimal(%d,%d)", c.Prec, c.Scale)
	}
	return "int"
}

func (c *Col) zero() V {
	switch c.Kind {
	case KStr:
		return S("")
	case KDec:
		return D(0, c.Scale)
	}
	return I(0)
}

func pow10(n int) int64 {
	p := int64(1)
	for i := 0; i < n; i++ {
		p *= 10
	}
	return p
}

// rescale rounds unscaled/10^from to scale `to`, half away from zero (MySQL's DECIMAL rounding).
func rescale(unscaled int64, from, to int) int64 {
	if to >= from {
		return unscaled * pow10(to-from)
	}
	d := pow10(from - to)
	q, r := unscaled/d, unscaled%d
	if r < 0 {
		r = -r
	}
	if 2*r >= d {
		if unscaled < 0 {
			q--
		} else {
			q++
		}
	}
	return q
}

func parseDec(s string) (unscaled int64, scale int, ok bool) {
	r, good := new(big.Rat).SetString(strings.TrimSpace(s))
	if !good || strings.ContainsAny(s, "eE/") {
		return 0, 0, false
	}
	if i := strings.IndexByte(s, '.'); i >= 0 {
		scale = len(strings.TrimSpace(s)) - i - 1
	}
	r.Mul(r, new(big.Rat).SetInt64(pow10(scale)))
	if !r.IsInt() || !r.Num().IsInt64() {
		return 0, 0, false
	}
	return r.Num().Int64(), scale, true
}

// Conv converts a literal to the stored value of the column under strict SQL mode (ignore=false)
// or with IGNORE (nearest valid value instead of an error).
func (c *Col) Conv(v V, ignore bool) (V, *MErr) {
	if v.Null {
		if !c.NotNull {
			return v, nil
		}
		if ignore {
			return c.zero(), nil
		}
		return v, &MErr{"not-null", c.Name}
	}
	bad := func() (V, *MErr) {
		if ignore {
			return c.zero(), nil
		}
		return v, &MErr{"convert", fmt.Sprintf("%s into %s", v.SQL(), c.typeSQL())}
	}
	switch c.Kind {
	case KInt:
		switch v.K {
		case KInt:
			return v, nil
		case KDec:
			return I(rescale(v.I, v.Sc, 0)), nil
		default:
			i, err := strconv.ParseInt(strings.TrimSpace(v.S), 10, 64)
			if err != nil {
				return bad()
			}
			return I(i), nil
		}
	case KStr:
		s := v.S
		if v.K != KStr {
			s = v.SQL()
		}
		if utf8.RuneCountInString(s) > c.Len {
			if ignore {
				return S(prefixChars(s, c.Len)), nil
			}
			return v, &MErr{"convert", fmt.Sprintf("%s too long for %s", v.SQL(), c.typeSQL())}
		}
		return S(s), nil
	default: // KDec
		var u int64
		var sc int
		switch v.K {
		case KInt:
			u, sc = v.I, 0
		case KDec:
			u, sc = v.I, v.Sc
		default:
			var ok bool
			u, sc, ok = parseDec(v.S)
			if !ok {
				return bad()
			}
		}
		u = rescale(u, sc, c.Scale)
		lim := pow10(c.Prec)
		if u >= lim || u <= -lim {
			if ignore {
				if u < 0 {
					return D(-(lim - 1), c.Scale), nil
				}
				return D(lim-1, c.Scale), nil
			}
			return v, &MErr{"convert", fmt.Sprintf("%s out of range for %s", v.SQL(), c.typeSQL())}
		}
		return D(u, c.Scale), nil
	}
}

// Index is a secondary index; only unique ones matter to the model, the others are declared so that
// the engine maintains (and C15 dumps) them.
type Index struct {
	Name   string
	Cols   []int
	Prefix []int // per column, 0 = whole value
	Unique bool
}

// Check is a CHECK (col op literal) constraint; NULL passes.
type Check struct {
	Col int
	Op  string
	V   V
}

// Trigger is an AFTER row trigger: it first writes ('i'|'u'|'d', a, b) of the NEW (OLD for delete)
// row into the audit table and then SIGNALs when column SigCol of that row equals SigVal.
type Trigger struct {
	Event  string // insert | update | delete
	Audit  string // audit table name ("" = none)
	SigCol int    // -1 = never signals
	SigVal V
}

// FK is a foreign key of the table that declares it (the child).
type FK struct {
	Name     string
	Cols     []int
	Parent   string
	PCols    []int
	OnDelete string // CASCADE | RESTRICT
	OnUpdate string
}

type TableDef struct {
	Name     string
	Cols     []Col
	PK       []int
	Idx      []Index
	Checks   []Check
	Triggers []Trigger
	FKs      []FK
}

func (t *TableDef) Keyless() bool { return len(t.PK) == 0 }

// UniqueKeys returns the keys that forbid duplicates: the primary key first, then the unique
// indexes in declaration order (the order in which InnoDB checks them).
func (t *TableDef) UniqueKeys() []Index {
	var out []Index
	if len(t.PK) > 0 {
		out = append(out, Index{Name: "PRIMARY", Cols: t.PK, Prefix: make([]int, len(t.PK)), Unique: true})
	}
	for _, ix := range t.Idx {
		if ix.Unique {
			if ix.Prefix == nil {
				ix.Prefix = make([]int, len(ix.Cols))
			}
			out = append(out, ix)
		}
	}
	return out
}

func (t *TableDef) colList(cols []int, prefix []int) string {
	p := make([]string, len(cols))
	for i, c := range cols {
		p[i] = t.Cols[c].Name
		if prefix != nil && prefix[i] > 0 {
			p[i] += fmt.Sprintf("(%d)", prefix[i])
		}
	}
	return strings.Join(p, ",")
}

// DDL returns the statements that create the table (and its triggers) in the engine.
func (t *TableDef) DDL(s *Schema) []string {
	var parts []string
	for i := range t.Cols {
		c := &t.Cols[i]
		d := c.Name + " " + c.typeSQL()
		if c.NotNull {
			d += " not null"
		}
		parts = append(parts, d)
	}
	if len(t.PK) > 0 {
		parts = append(parts, "primary key ("+t.colList(t.PK, nil)+")")
	}
	for _, ix := range t.Idx {
		k := "key"
		if ix.Unique {
			k = "unique key"
		}
		parts = append(parts, fmt.Sprintf("%s %s (%s)", k, ix.Name, t.colList(ix.Cols, ix.Prefix)))
	}
	for i, c := range t.Checks {
		parts = append(parts, fmt.Sprintf("constraint %s_chk%d check (%s %s %s)", t.Name, i+1, t.Cols[c.Col].Name, c.Op, c.V.SQL()))
	}
	for _, fk := range t.FKs {
		p := s.Table(fk.Parent)
		parts = append(parts, fmt.Sprintf("constraint %s foreign key (%s) references %s (%s) on delete %s on update %s",
			fk.Name, t.colList(fk.Cols, nil), fk.Parent, p.colList(fk.PCols, nil), fk.OnDelete, fk.OnUpdate))
	}
	out := []string{fmt.Sprintf("create table %s (%s)", t.Name, strings.Join(parts, ", "))}
	for _, tr := range t.Triggers {
		ref := "new"
		if tr.Event == "delete" {
			ref = "old"
		}
		body := ""
		if tr.Audit != "" {
			body += fmt.Sprintf("insert into %s values ('%s', %s.%s, %s.%s); ", tr.Audit, tr.Event[:1], ref, t.Cols[0].Name, ref, t.Cols[1].Name)
		}
		if tr.SigCol >= 0 {
			body += fmt.Sprintf("if %s.%s = %s then signal sqlstate '45000' set message_text = 'trigger signal'; end if; ", ref, t.Cols[tr.SigCol].Name, tr.SigVal.SQL())
		}
		out = append(out, fmt.Sprintf("create trigger %s_a%s after %s on %s for each row begin %send", t.Name, tr.Event[:1], tr.Event, t.Name, body))
	}
	return out
}

// Schema is a set of tables created in dependency order, plus seed rows.
type Schema struct {
	Name   string
	Tables []*TableDef
	// Seed statements executed (on both sides) after the DDL.
	Seed []*Stmt
}

func (s *Schema) Table(name string) *TableDef {
	for _, t := range s.Tables {
		if t.Name == name {
			return t
		}
	}
	panic("tmodel: no table " + name + " in schema " + s.Name)
}

func (s *Schema) DDL() []string {
	var out []string
	for _, t := range s.Tables {
		out = append(out, t.DDL(s)...)
	}
	return out
}
