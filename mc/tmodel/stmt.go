package tmodel

import (
	"fmt"
	"strings"
)

// Expr is a scalar expression of the statement fragment.
type Expr struct {
	Op  byte // 'l' literal V | 'c' column Col | '+' Col + V (integer) | '|' concat(Col, V) | 'v' VALUES(Col)
	Col int
	V   V
}

func Lit(v V) Expr                { return Expr{Op: 'l', V: v} }
func ColRef(c int) Expr           { return Expr{Op: 'c', Col: c} }
func Plus(c int, n int64) Expr    { return Expr{Op: '+', Col: c, V: I(n)} }
func Concat(c int, s string) Expr { return Expr{Op: '|', Col: c, V: S(s)} }
func ValuesOf(c int) Expr         { return Expr{Op: 'v', Col: c} }

func (e Expr) SQL(t *TableDef) string {
	switch e.Op {
	case 'l':
		return e.V.SQL()
	case 'c':
		return t.Cols[e.Col].Name
	case '+':
		return fmt.Sprintf("%s+%s", t.Cols[e.Col].Name, e.V.SQL())
	case '|':
		return fmt.Sprintf("concat(%s,%s)", t.Cols[e.Col].Name, e.V.SQL())
	case 'v':
		return fmt.Sprintf("values(%s)", t.Cols[e.Col].Name)
	}
	panic("bad expr")
}

// Eval evaluates over the existing row (and, for VALUES(), the row proposed for insertion).
func (e Expr) Eval(row, proposed []V) V {
	switch e.Op {
	case 'l':
		return e.V
	case 'c':
		return row[e.Col]
	case 'v':
		return proposed[e.Col]
	case '+':
		x := row[e.Col]
		if x.Null {
			return x
		}
		if x.K != KInt {
			panic("tmodel: + on a non-integer column")
		}
		return I(x.I + e.V.I)
	case '|':
		x := row[e.Col]
		if x.Null {
			return x
		}
		if x.K == KStr {
			return S(x.S + e.V.S)
		}
		return S(x.SQL() + e.V.S)
	}
	panic("bad expr")
}

type Assign struct {
	Col int
	E   Expr
}

// Cond is `col op literal` or `col IS NULL` (Op "isnull").
type Cond struct {
	Col int
	Op  string
	V   V
}

func (c *Cond) SQL(t *TableDef) string {
	if c.Op == "isnull" {
		return t.Cols[c.Col].Name + " is null"
	}
	return fmt.Sprintf("%s %s %s", t.Cols[c.Col].Name, c.Op, c.V.SQL())
}

// True reports whether the condition is TRUE for the row (UNKNOWN counts as not true).
func (c *Cond) True(t *TableDef, row []V) bool {
	x := row[c.Col]
	if c.Op == "isnull" {
		return x.Null
	}
	if x.Null || c.V.Null {
		return false
	}
	return cmpOp(Cmp(x, c.V, t.Cols[c.Col].Coll, 0), c.Op)
}

func cmpOp(k int, op string) bool {
	switch op {
	case "=":
		return k == 0
	case "<>":
		return k != 0
	case "<":
		return k < 0
	case "<=":
		return k <= 0
	case ">":
		return k > 0
	case ">=":
		return k >= 0
	}
	panic("bad comparison " + op)
}

type SKind uint8

const (
	Insert SKind = iota
	Replace
	Update
	Delete
	InsertSelect
	Truncate
)

// Stmt is one data-modifying statement on one table.
type Stmt struct {
	Kind   SKind
	Table  string
	Ignore bool     // INSERT IGNORE
	Rows   [][]V    // Insert / Replace: full rows in column order
	OnDup  []Assign // Insert: ON DUPLICATE KEY UPDATE
	Set    []Assign // Update
	Where  *Cond    // Update / Delete / InsertSelect
	Order  int      // Update / Delete: ORDER BY column, -1 = none
	Desc   bool
	Limit  int    // -1 = none
	Proj   []Expr // InsertSelect: INSERT INTO t SELECT proj FROM t [WHERE]
}

func (st *Stmt) SQL(s *Schema) string {
	t := s.Table(st.Table)
	var sb strings.Builder
	tail := func() {
		if st.Where != nil {
			sb.WriteString(" where " + st.Where.SQL(t))
		}
		if st.Order >= 0 {
			sb.WriteString(" order by " + t.Cols[st.Order].Name)
			if st.Desc {
				sb.WriteString(" desc")
			}
		}
		if st.Limit >= 0 {
			fmt.Fprintf(&sb, " limit %d", st.Limit)
		}
	}
	assigns := func(as []Assign) string {
		p := make([]string, len(as))
		for i, a := range as {
			p[i] = t.Cols[a.Col].Name + " = " + a.E.SQL(t)
		}
		return strings.Join(p, ", ")
	}
	switch st.Kind {
	case Insert, Replace:
		switch {
		case st.Kind == Replace:
			sb.WriteString("replace into ")
		case st.Ignore:
			sb.WriteString("insert ignore into ")
		default:
			sb.WriteString("insert into ")
		}
		sb.WriteString(st.Table + " values ")
		for i, r := range st.Rows {
			if i > 0 {
				sb.WriteString(",")
			}
			p := make([]string, len(r))
			for j, v := range r {
				p[j] = v.SQL()
			}
			sb.WriteString("(" + strings.Join(p, ",") + ")")
		}
		if len(st.OnDup) > 0 {
			sb.WriteString(" on duplicate key update " + assigns(st.OnDup))
		}
	case Update:
		sb.WriteString("update " + st.Table + " set " + assigns(st.Set))
		tail()
	case Delete:
		sb.WriteString("delete from " + st.Table)
		tail()
	case InsertSelect:
		p := make([]string, len(st.Proj))
		for i, e := range st.Proj {
			p[i] = e.SQL(t)
		}
		if st.Ignore {
			sb.WriteString("insert ignore into ")
		} else {
			sb.WriteString("insert into ")
		}
		sb.WriteString(st.Table + " select " + strings.Join(p, ", ") + " from " + st.Table)
		if st.Where != nil {
			sb.WriteString(" where " + st.Where.SQL(t))
		}
	case Truncate:
		sb.WriteString("truncate table " + st.Table)
	}
	return sb.String()
}

// KindName classifies the statement for violation subjects and outcome histograms.
func (st *Stmt) KindName() string {
	switch st.Kind {
	case Insert:
		n := "insert"
		if st.Ignore {
			n = "insert-ignore"
		}
		if len(st.OnDup) > 0 {
			n = "insert-odku"
		}
		if len(st.Rows) > 1 {
			n += "-multi"
		}
		return n
	case Replace:
		if len(st.Rows) > 1 {
			return "replace-multi"
		}
		return "replace"
	case Update:
		return "update"
	case Delete:
		return "delete"
	case InsertSelect:
		return "insert-select"
	}
	return "truncate"
}

// Shape lists the optional clauses used and whether key columns are assigned.
func (st *Stmt) Shape(s *Schema) string {
	t := s.Table(st.Table)
	var p []string
	keycol := map[int]bool{}
	for _, k := range t.UniqueKeys() {
		for _, c := range k.Cols {
			keycol[c] = true
		}
	}
	for _, a := range append(append([]Assign{}, st.Set...), st.OnDup...) {
		if keycol[a.Col] {
			p = append(p, "sets-key")
			break
		}
	}
	if st.Where != nil {
		p = append(p, "where")
	}
	if st.Order >= 0 {
		p = append(p, "order-by")
	}
	if st.Limit >= 0 {
		p = append(p, "limit")
	}
	if len(p) == 0 {
		return "plain"
	}
	return strings.Join(p, "+")
}

// ---- builders used by the alphabets

func Ins(table string, rows ...[]V) *Stmt {
	return &Stmt{Kind: Insert, Table: table, Rows: rows, Order: -1, Limit: -1}
}
func InsIgnore(table string, rows ...[]V) *Stmt {
	st := Ins(table, rows...)
	st.Ignore = true
	return st
}
func Repl(table string, rows ...[]V) *Stmt {
	return &Stmt{Kind: Replace, Table: table, Rows: rows, Order: -1, Limit: -1}
}
func Odku(table string, as []Assign, rows ...[]V) *Stmt {
	st := Ins(table, rows...)
	st.OnDup = as
	return st
}
func Upd(table string, as []Assign, where *Cond, order int, desc bool, limit int) *Stmt {
	return &Stmt{Kind: Update, Table: table, Set: as, Where: where, Order: order, Desc: desc, Limit: limit}
}
func Del(table string, where *Cond, order int, desc bool, limit int) *Stmt {
	return &Stmt{Kind: Delete, Table: table, Where: where, Order: order, Desc: desc, Limit: limit}
}
func InsSel(table string, proj []Expr, where *Cond) *Stmt {
	return &Stmt{Kind: InsertSelect, Table: table, Proj: proj, Where: where, Order: -1, Limit: -1}
}
func Trunc(table string) *Stmt { return &Stmt{Kind: Truncate, Table: table, Order: -1, Limit: -1} }

func Row(vs ...V) []V { return vs }
