// Package tmodel is the reference table model shared by the checks C13 (DML matches the model),
// C14 (keys enforced exactly) and C15 (a failed statement has no effect).
//
// It is written from the MySQL 8.0 reference manual's description of the statements, never from
// the code under test: a table is a list of rows (a keyed map for keyed tables, a multiset for
// keyless ones — the list order is only the "storage order" the model tries first when MySQL leaves
// the row processing order open); each DML statement is a pure function
// state -> set of allowed (state', affected, matched/changed, error class).
package tmodel

import (
	"fmt"
	"strings"
	"unicode"
	"unicode/utf8"
)

type Kind uint8

const (
	KInt Kind = iota
	KStr
	KDec
)

// V is a model value: NULL, an integer, a string, or an exact decimal (unscaled integer + scale).
type V struct {
	Null bool
	K    Kind
	I    int64 // KInt: the value; KDec: the unscaled value
	Sc   int   // KDec: scale
	S    string
}

func N() V                          { return V{Null: true} }
func I(i int64) V                   { return V{K: KInt, I: i} }
func S(s string) V                  { return V{K: KStr, S: s} }
func D(unscaled int64, scale int) V { return V{K: KDec, I: unscaled, Sc: scale} }

func decText(unscaled int64, scale int) string {
	neg := unscaled < 0
	if neg {
		unscaled = -unscaled
	}
	s := fmt.Sprintf("%d", unscaled)
	if scale > 0 {
		for len(s) <= scale {
			s = "0" + s
		}
		s = s[:len(s)-scale] + "." + s[len(s)-scale:]
	}
	if neg {
		s = "-" + s
	}
	return s
}

// SQL renders the value as a SQL literal.
func (v V) SQL() string {
	switch {
	case v.Null:
		return "NULL"
	case v.K == KInt:
		return fmt.Sprintf("%d", v.I)
	case v.K == KDec:
		return decText(v.I, v.Sc)
	default:
		return "'" + strings.ReplaceAll(v.S, "'", "''") + "'"
	}
}

// Fmt renders the value the way eng.FormatValue renders the engine's value of the same meaning.
func (v V) Fmt() string {
	switch {
	case v.Null:
		return "NULL"
	case v.K == KInt:
		return fmt.Sprintf("%d", v.I)
	case v.K == KDec:
		return decText(v.I, v.Sc)
	default:
		return "'" + v.S + "'"
	}
}

func FmtRow(r []V) string {
	p := make([]string, len(r))
	for i, v := range r {
		p[i] = v.Fmt()
	}
	return "(" + strings.Join(p, ",") + ")"
}

// Same is identity of stored values (what "the row did not change" means): same NULL-ness, same
// number, same string bytes.
func (v V) Same(w V) bool {
	if v.Null || w.Null {
		return v.Null && w.Null
	}
	if v.K != w.K {
		return false
	}
	switch v.K {
	case KStr:
		return v.S == w.S
	case KDec:
		return v.I == w.I && v.Sc == w.Sc
	}
	return v.I == w.I
}

func SameRow(a, b []V) bool {
	if len(a) != len(b) {
		return false
	}
	for i := range a {
		if !a[i].Same(b[i]) {
			return false
		}
	}
	return true
}

// Coll is a collation class of a string column.
type Coll uint8

const (
	Bin  Coll = iota // utf8mb4_0900_bin: code point order, every code point distinct
	AiCi             // utf8mb4_0900_ai_ci: accents and case do not distinguish, NO PAD
)

func (c Coll) Name() string {
	if c == AiCi {
		return "utf8mb4_0900_ai_ci"
	}
	return "utf8mb4_0900_bin"
}

// latin-1 supplement letters -> base letter (all the model's alphabets stay inside this table;
// Fold panics on anything it does not know so that an alphabet cannot silently leave it).
var accentBase = map[rune]rune{
	'à': 'a', 'á': 'a', 'â': 'a', 'ã': 'a', 'ä': 'a', 'å': 'a',
	'À': 'a', 'Á': 'a', 'Â': 'a', 'Ã': 'a', 'Ä': 'a', 'Å': 'a',
	'è': 'e', 'é': 'e', 'ê': 'e', 'ë': 'e', 'È': 'e', 'É': 'e', 'Ê': 'e', 'Ë': 'e',
	'ç': 'c', 'Ç': 'c', 'ñ': 'n', 'Ñ': 'n',
}

// Fold maps a string to its utf8mb4_0900_ai_ci comparison key (for ASCII letters/digits and the
// accented letters of accentBase).
func Fold(s string) string {
	var sb strings.Builder
	for _, r := range s {
		switch {
		case r < 0x80 && (unicode.IsLetter(r) || unicode.IsDigit(r)):
			sb.WriteRune(unicode.ToLower(r))
		default:
			b, ok := accentBase[r]
			if !ok {
				panic(fmt.Sprintf("tmodel.Fold: character %q is outside the model's collation table", r))
			}
			sb.WriteRune(b)
		}
	}
	return sb.String()
}

func prefixChars(s string, n int) string {
	if n <= 0 {
		return s
	}
	i := 0
	for k := 0; k < n && i < len(s); k++ {
		_, w := utf8.DecodeRuneInString(s[i:])
		i += w
	}
	return s[:i]
}

// CmpStr compares two strings under a collation (prefix = number of leading characters that take
// part, 0 = all).
func CmpStr(a, b string, c Coll, prefix int) int {
	a, b = prefixChars(a, prefix), prefixChars(b, prefix)
	if c == AiCi {
		a, b = Fold(a), Fold(b)
	}
	return strings.Compare(a, b)
}

// Cmp compares two non-NULL values of the same column (numbers numerically, strings under c).
func Cmp(a, b V, c Coll, prefix int) int {
	switch a.K {
	case KStr:
		return CmpStr(a.S, b.S, c, prefix)
	case KDec:
		x, y := a.I, b.I
		for sa := a.Sc; sa < b.Sc; sa++ {
			x *= 10
		}
		for sb := b.Sc; sb < a.Sc; sb++ {
			y *= 10
		}
		return cmpInt(x, y)
	}
	return cmpInt(a.I, b.I)
}

func cmpInt(x, y int64) int {
	switch {
	case x < y:
		return -1
	case x > y:
		return 1
	}
	return 0
}
