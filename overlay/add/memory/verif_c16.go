package memory

import (
	"sort"
	"strings"

	"github.com/dolthub/go-mysql-server/sql"
	"github.com/dolthub/go-mysql-server/sql/expression"
)

// Read-only dump of a memory table's internal storage (primary partitions, index definitions and
// secondary index storage incl. the row-location cells). Added by the verification overlay
// (property C16). Nothing here writes to, or caches anything in, the database or the session.

// VerifC16Entry is one row of a secondary index storage slice.
type VerifC16Entry struct {
	Cells     []interface{} // all cells but the last one
	LocOK     bool          // the last cell is a primaryRowLocation
	Partition string
	Idx       int
}

// VerifC16Index is one index definition with its storage.
type VerifC16Index struct {
	MapKey     string // key in TableData.indexes
	ID         string // Index.ID(): key of the storage map
	Unique     bool
	KeyCols    []int // schema ordinals of the index expressions (-1: not a column)
	PrefixLens []uint16
	HasStorage bool
	Entries    []VerifC16Entry
}

// VerifC16Table is the dump of one TableData.
type VerifC16Table struct {
	Found         bool
	FromSession   bool
	PkOrdinals    []int
	PartitionKeys []string
	Partitions    map[string][]sql.Row // copies of the slices; the rows are the stored ones: do not modify
	Indexes       []VerifC16Index      // sorted by MapKey
	OrphanStorage []string             // storage keys without an index definition, sorted
	AutoIncVal    uint64
}

func verifC16Dump(td *TableData) VerifC16Table {
	out := VerifC16Table{Found: true, Partitions: map[string][]sql.Row{}, AutoIncVal: td.autoIncVal}
	out.PkOrdinals = append(out.PkOrdinals, td.schema.PkOrdinals...)
	for _, k := range td.partitionKeys {
		out.PartitionKeys = append(out.PartitionKeys, string(k))
	}
	for k, rows := range td.partitions {
		out.Partitions[k] = append([]sql.Row{}, rows...)
	}
	defined := map[string]bool{}
	for mapKey, si := range td.indexes {
		idx, ok := si.(*Index)
		if !ok {
			continue
		}
		vi := VerifC16Index{MapKey: mapKey, ID: idx.ID(), Unique: idx.Unique}
		vi.PrefixLens = append(vi.PrefixLens, idx.PrefixLens...)
		for _, e := range idx.Exprs {
			if gf, ok := e.(*expression.GetField); ok {
				vi.KeyCols = append(vi.KeyCols, td.schema.Schema.IndexOfColName(gf.Name()))
			} else {
				vi.KeyCols = append(vi.KeyCols, -1)
			}
		}
		defined[idx.ID()] = true
		storage, has := td.secondaryIndexStorage[indexName(idx.ID())]
		vi.HasStorage = has
		for _, r := range storage {
			var en VerifC16Entry
			if len(r) > 0 {
				en.Cells = append(en.Cells, r[:len(r)-1]...)
				if loc, ok := r[len(r)-1].(primaryRowLocation); ok {
					en.LocOK, en.Partition, en.Idx = true, loc.partition, loc.idx
				}
			}
			vi.Entries = append(vi.Entries, en)
		}
		out.Indexes = append(out.Indexes, vi)
	}
	sort.Slice(out.Indexes, func(i, j int) bool { return out.Indexes[i].MapKey < out.Indexes[j].MapKey })
	for k, rows := range td.secondaryIndexStorage {
		if !defined[string(k)] && len(rows) > 0 {
			out.OrphanStorage = append(out.OrphanStorage, string(k))
		}
	}
	sort.Strings(out.OrphanStorage)
	return out
}

func verifC16Committed(db *BaseDatabase, table string) *TableData {
	db.tablesMu.RLock()
	defer db.tablesMu.RUnlock()
	for name, t := range db.tables {
		if strings.EqualFold(name, table) {
			if mt, ok := t.(MemTable); ok {
				return mt.UnderlyingTable().data
			}
		}
	}
	return nil
}

// VerifC16Committed dumps the table as stored in the database (what a new transaction starts from).
func VerifC16Committed(db *BaseDatabase, table string) VerifC16Table {
	td := verifC16Committed(db, table)
	if td == nil {
		return VerifC16Table{}
	}
	return verifC16Dump(td)
}

// VerifC16Session dumps the table as the session of ctx currently sees it: its own working copy
// when it has one, the committed table otherwise.
func VerifC16Session(ctx *sql.Context, db *BaseDatabase, table string) VerifC16Table {
	if sess, ok := ctx.Session.(*Session); ok {
		if td, ok := sess.tables[keyFromNames(db.Name(), table)]; ok {
			out := verifC16Dump(td)
			out.FromSession = true
			return out
		}
	}
	return VerifC16Committed(db, table)
}
