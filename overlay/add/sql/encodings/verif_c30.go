package encodings

// VerifRange is one table entry of a RangeMap seen from outside: the first and last byte tuple on
// the character-set side (In) and on the utf8 side (Out). Added by the verification overlay
// (property C30); read-only.
type VerifRange struct {
	InMin, InMax, OutMin, OutMax []byte
}

// VerifRangeMapRanges lists every entry of both tables of a *RangeMap encoder (ok=false for the
// other encoder implementations).
func VerifRangeMapRanges(e Encoder) (out []VerifRange, ok bool) {
	rm, ok := e.(*RangeMap)
	if !ok {
		return nil, false
	}
	for _, tbl := range [][][]rangeMapEntry{rm.inputEntries, rm.outputEntries} {
		for _, byLen := range tbl {
			for _, en := range byLen {
				var v VerifRange
				for _, b := range en.inputRange {
					v.InMin = append(v.InMin, b[0])
					v.InMax = append(v.InMax, b[1])
				}
				for _, b := range en.outputRange {
					v.OutMin = append(v.OutMin, b[0])
					v.OutMax = append(v.OutMax, b[1])
				}
				out = append(out, v)
			}
		}
	}
	return out, true
}
