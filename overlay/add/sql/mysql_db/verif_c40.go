package mysql_db

import "github.com/dolthub/vitess/go/mysql"

// Read-only accessors for the verification harness (C40): the unexported credential-validation
// entry points that the vitess auth methods call.

// VerifNativeHashStorage is the mysql_native_password validation entry point.
func VerifNativeHashStorage(db *MySQLDb) mysql.HashStorage { return &nativePasswordHashStorage{db: db} }

// VerifCachingStorage is the caching_sha2_password fast-auth entry point.
func VerifCachingStorage(db *MySQLDb) mysql.CachingStorage { return noopCachingStorage{db: db} }

// VerifSha2PlainTextStorage is the caching_sha2_password full-auth entry point.
func VerifSha2PlainTextStorage(db *MySQLDb) mysql.PlainTextStorage {
	return sha2PlainTextStorage{db: db}
}
