package types

import "github.com/dolthub/go-mysql-server/sql"

// VerifSysTypeInfo is the declaration of a system-variable type seen from outside (kind, declared
// bounds, member list). Added by the verification overlay (property C44); read-only.
type VerifSysTypeInfo struct {
	Kind    string // bool | int | uint | double | enum | set | string
	IntLo   int64
	IntHi   int64
	NegOne  bool
	UintLo  uint64
	UintHi  uint64
	DblLo   float64
	DblHi   float64
	Members []string
}

// VerifSystemTypeInfo returns the declaration of a system variable type (ok=false for any other type).
func VerifSystemTypeInfo(t sql.Type) (VerifSysTypeInfo, bool) {
	switch x := t.(type) {
	case SystemBoolType:
		return VerifSysTypeInfo{Kind: "bool"}, true
	case systemIntType:
		return VerifSysTypeInfo{Kind: "int", IntLo: x.lowerbound, IntHi: x.upperbound, NegOne: x.negativeOne}, true
	case systemUintType:
		return VerifSysTypeInfo{Kind: "uint", UintLo: x.lowerbound, UintHi: x.upperbound}, true
	case systemDoubleType:
		return VerifSysTypeInfo{Kind: "double", DblLo: x.lowerbound, DblHi: x.upperbound}, true
	case systemEnumType:
		return VerifSysTypeInfo{Kind: "enum", Members: append([]string{}, x.indexToVal...)}, true
	case systemSetType:
		return VerifSysTypeInfo{Kind: "set", Members: append([]string{}, x.SetType.Values()...)}, true
	case systemStringType:
		return VerifSysTypeInfo{Kind: "string"}, true
	}
	return VerifSysTypeInfo{}, false
}
