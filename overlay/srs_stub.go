// Stand-in for sql/types/spatial_reference_systems.go, which is a 0-byte file at the pinned
// commit (listed in /root/.vp/EMPTIED_FILES.txt). Used only through `go build -overlay`, and only
// when the file in the tree does not parse.
package types

// SpatialRef mirrors the upstream struct.
type SpatialRef struct {
	Name          string
	ID            uint32
	Organization  any
	OrgCoordsysId any
	Definition    string
	Description   any
}

var SupportedSRIDs = map[uint32]SpatialRef{
	0:    {Name: "", ID: 0, Organization: nil, OrgCoordsysId: nil, Definition: "", Description: nil},
	3857: {Name: "WGS 84 / Pseudo-Mercator", ID: 3857, Organization: "EPSG", OrgCoordsysId: uint32(3857), Definition: "PROJCS[\"WGS 84 / Pseudo-Mercator\"]", Description: nil},
	4326: {Name: "WGS 84", ID: 4326, Organization: "EPSG", OrgCoordsysId: uint32(4326), Definition: "GEOGCS[\"WGS 84\",DATUM[\"World Geodetic System 1984\",SPHEROID[\"WGS 84\",6378137,298.257223563,AUTHORITY[\"EPSG\",\"7030\"]],AUTHORITY[\"EPSG\",\"6326\"]],PRIMEM[\"Greenwich\",0,AUTHORITY[\"EPSG\",\"8901\"]],UNIT[\"degree\",0.017453292519943278,AUTHORITY[\"EPSG\",\"9122\"]],AXIS[\"Lat\",NORTH],AXIS[\"Lon\",EAST],AUTHORITY[\"EPSG\",\"4326\"]]", Description: nil},
}
