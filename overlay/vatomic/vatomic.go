// Package vatomic replaces "sync/atomic" in go-mysql-server sources under the sched overlay:
// every operation is preceded by a scheduling point.
package vatomic

import (
	"sync/atomic"
	"unsafe"

	"github.com/dolthub/go-mysql-server/verifshim/vsched"
)

func pt() {
	if t := vsched.Cur(); t != nil {
		t.Point(vsched.OpAtomic, nil)
	}
}

type Bool struct{ v atomic.Bool }

func (x *Bool) Load() bool                       { pt(); return x.v.Load() }
func (x *Bool) Store(val bool)                   { pt(); x.v.Store(val) }
func (x *Bool) Swap(new bool) bool               { pt(); return x.v.Swap(new) }
func (x *Bool) CompareAndSwap(old, new bool) bool { pt(); return x.v.CompareAndSwap(old, new) }

type Int32 struct{ v atomic.Int32 }

func (x *Int32) Load() int32                        { pt(); return x.v.Load() }
func (x *Int32) Store(val int32)                    { pt(); x.v.Store(val) }
func (x *Int32) Add(d int32) int32                  { pt(); return x.v.Add(d) }
func (x *Int32) Swap(n int32) int32                 { pt(); return x.v.Swap(n) }
func (x *Int32) CompareAndSwap(old, new int32) bool { pt(); return x.v.CompareAndSwap(old, new) }

type Int64 struct{ v atomic.Int64 }

func (x *Int64) Load() int64                        { pt(); return x.v.Load() }
func (x *Int64) Store(val int64)                    { pt(); x.v.Store(val) }
func (x *Int64) Add(d int64) int64                  { pt(); return x.v.Add(d) }
func (x *Int64) Swap(n int64) int64                 { pt(); return x.v.Swap(n) }
func (x *Int64) CompareAndSwap(old, new int64) bool { pt(); return x.v.CompareAndSwap(old, new) }

type Uint32 struct{ v atomic.Uint32 }

func (x *Uint32) Load() uint32                        { pt(); return x.v.Load() }
func (x *Uint32) Store(val uint32)                    { pt(); x.v.Store(val) }
func (x *Uint32) Add(d uint32) uint32                 { pt(); return x.v.Add(d) }
func (x *Uint32) Swap(n uint32) uint32                { pt(); return x.v.Swap(n) }
func (x *Uint32) CompareAndSwap(old, new uint32) bool { pt(); return x.v.CompareAndSwap(old, new) }

type Uint64 struct{ v atomic.Uint64 }

func (x *Uint64) Load() uint64                        { pt(); return x.v.Load() }
func (x *Uint64) Store(val uint64)                    { pt(); x.v.Store(val) }
func (x *Uint64) Add(d uint64) uint64                 { pt(); return x.v.Add(d) }
func (x *Uint64) Swap(n uint64) uint64                { pt(); return x.v.Swap(n) }
func (x *Uint64) CompareAndSwap(old, new uint64) bool { pt(); return x.v.CompareAndSwap(old, new) }

type Value struct{ v atomic.Value }

func (x *Value) Load() any                      { pt(); return x.v.Load() }
func (x *Value) Store(val any)                  { pt(); x.v.Store(val) }
func (x *Value) Swap(n any) any                 { pt(); return x.v.Swap(n) }
func (x *Value) CompareAndSwap(old, new any) bool { pt(); return x.v.CompareAndSwap(old, new) }

type Pointer[T any] struct{ v atomic.Pointer[T] }

func (x *Pointer[T]) Load() *T                       { pt(); return x.v.Load() }
func (x *Pointer[T]) Store(val *T)                   { pt(); x.v.Store(val) }
func (x *Pointer[T]) Swap(n *T) *T                   { pt(); return x.v.Swap(n) }
func (x *Pointer[T]) CompareAndSwap(old, new *T) bool { pt(); return x.v.CompareAndSwap(old, new) }

func LoadPointer(addr *unsafe.Pointer) unsafe.Pointer { pt(); return atomic.LoadPointer(addr) }
func StorePointer(addr *unsafe.Pointer, val unsafe.Pointer) {
	pt()
	atomic.StorePointer(addr, val)
}
func CompareAndSwapPointer(addr *unsafe.Pointer, old, new unsafe.Pointer) bool {
	pt()
	return atomic.CompareAndSwapPointer(addr, old, new)
}
func AddUint32(addr *uint32, d uint32) uint32 { pt(); return atomic.AddUint32(addr, d) }
func AddUint64(addr *uint64, d uint64) uint64 { pt(); return atomic.AddUint64(addr, d) }
func AddInt32(addr *int32, d int32) int32     { pt(); return atomic.AddInt32(addr, d) }
func AddInt64(addr *int64, d int64) int64     { pt(); return atomic.AddInt64(addr, d) }
func LoadUint32(addr *uint32) uint32          { pt(); return atomic.LoadUint32(addr) }
func LoadUint64(addr *uint64) uint64          { pt(); return atomic.LoadUint64(addr) }
func LoadInt32(addr *int32) int32             { pt(); return atomic.LoadInt32(addr) }
func LoadInt64(addr *int64) int64             { pt(); return atomic.LoadInt64(addr) }
func StoreUint32(addr *uint32, v uint32)      { pt(); atomic.StoreUint32(addr, v) }
func StoreUint64(addr *uint64, v uint64)      { pt(); atomic.StoreUint64(addr, v) }
func StoreInt32(addr *int32, v int32)         { pt(); atomic.StoreInt32(addr, v) }
func StoreInt64(addr *int64, v int64)         { pt(); atomic.StoreInt64(addr, v) }
func CompareAndSwapInt32(addr *int32, o, n int32) bool {
	pt()
	return atomic.CompareAndSwapInt32(addr, o, n)
}
func CompareAndSwapInt64(addr *int64, o, n int64) bool {
	pt()
	return atomic.CompareAndSwapInt64(addr, o, n)
}
func CompareAndSwapUint32(addr *uint32, o, n uint32) bool {
	pt()
	return atomic.CompareAndSwapUint32(addr, o, n)
}
func CompareAndSwapUint64(addr *uint64, o, n uint64) bool {
	pt()
	return atomic.CompareAndSwapUint64(addr, o, n)
}
