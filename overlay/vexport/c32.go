package vexport

import (
	gmsstrings "github.com/dolthub/go-mysql-server/internal/strings"
)

// C32: internal/strings Quote / Unquote (JSON string quoting).
func JSONStringsQuote(s string) string            { return gmsstrings.Quote(s) }
func JSONStringsUnquote(s string) (string, error) { return gmsstrings.Unquote(s) }
