// Package vexport re-exports internal/… packages of go-mysql-server for the verification
// harness (which lives in another module and cannot import internal packages). It exists only
// as a virtual directory injected with `go build -overlay`; it is not part of /repo.
package vexport

import (
	"github.com/dolthub/go-mysql-server/internal/similartext"
)

func SimilarFind(names []string, src string) string          { return similartext.Find(names, src) }
func SimilarFindFromMap(names interface{}, src string) string { return similartext.FindFromMap(names, src) }
func SimilarDistanceSkipped() int                             { return similartext.DistanceSkipped }
