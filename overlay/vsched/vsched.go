// Package vsched is the controlled (cooperative) scheduler used to model-check go-mysql-server's
// concurrency. It is injected into the gms module as a virtual package by `go build -overlay`;
// the vsync / vatomic / vtime shims (which replace sync, sync/atomic and — for the named-lock
// polling loop — time in the gms sources by import rewriting) call Point before every
// synchronisation operation. One managed thread runs at a time; at every point the scheduler asks
// a Chooser which enabled thread continues. With no scheduler installed the shims forward to the
// real primitives after one atomic load.
package vsched

import (
	"fmt"
	"os"
	"runtime"
	"runtime/debug"
	"sync"
	"sync/atomic"
	"time"
)

type OpKind uint8

const (
	OpStart OpKind = iota
	OpLock
	OpRLock
	OpAtomic
	OpOnce
	OpSleep
	OpYield
	OpUser
)

var kindNames = [...]string{"start", "lock", "rlock", "atomic", "once", "sleep", "yield", "user"}

func (k OpKind) String() string { return kindNames[k] }

// Resource is implemented by shim objects whose acquisition can block.
type Resource interface {
	// CanAcquire reports whether a thread could complete op kind now (logical state).
	CanAcquire(kind OpKind, t *Thread) bool
}

type Thread struct {
	ID       int
	s        *Sched
	wake     chan struct{}
	pending  OpKind
	res      Resource
	done     bool
	yielding bool
	started  bool
	PanicVal any
	PanicStk string
	// Points counts scheduling points this thread passed.
	Points int
}

// Point is one recorded scheduling decision.
type PointRec struct {
	Cands          []int // candidate thread ids in canonical order
	Chosen         int   // index into Cands
	RunningInCands bool  // the previously running thread is Cands[0] (switching away is a preemption)
}

type Trace struct {
	Points     []PointRec
	Deadlock   bool
	Horizon    bool
	Stuck      bool // a managed thread blocked on something the scheduler cannot see
	Blocked    []int
	VirtualNow int64 // virtual nanoseconds elapsed
}

func (t *Trace) Choices() []int {
	out := make([]int, len(t.Points))
	for i, p := range t.Points {
		out[i] = p.Chosen
	}
	return out
}

// PreemptionsBefore counts preemptions among points [0,i).
func (t *Trace) PreemptionsBefore(i int) int {
	n := 0
	for j := 0; j < i && j < len(t.Points); j++ {
		p := t.Points[j]
		if p.RunningInCands && p.Chosen != 0 {
			n++
		}
	}
	return n
}

type Sched struct {
	threads   []*Thread
	byGid     sync.Map // gid -> *Thread
	yield     chan *Thread
	running   *Thread
	trace     Trace
	prefix    []int
	maxPoints int
	now       int64
	err       error
}

var active atomic.Pointer[Sched]

func gid() int64 {
	var buf [40]byte
	n := runtime.Stack(buf[:], false)
	// "goroutine 123 ["
	var id int64
	for i := 10; i < n; i++ {
		c := buf[i]
		if c < '0' || c > '9' {
			break
		}
		id = id*10 + int64(c-'0')
	}
	return id
}

// Cur returns the managed thread of the calling goroutine, or nil when no scheduler is installed
// or the goroutine is not managed.
//
// Exactly one managed thread runs at a time and scenarios contain no unmanaged goroutines that
// touch shimmed primitives, so the caller is the thread the scheduler last woke. Looking the
// goroutine up by id (runtime.Stack) costs ~5 µs per point and is only done in the self-check mode
// VERIF_SCHED_CHECK_GID=1, where a mismatch panics.
func Cur() *Thread {
	s := active.Load()
	if s == nil {
		return nil
	}
	t := s.running
	if checkGid {
		v, ok := s.byGid.Load(gid())
		if !ok {
			panic("vsched: shim operation from an unmanaged goroutine while a scheduler is active")
		}
		if v.(*Thread) != t {
			panic("vsched: shim operation from a thread that is not the running one")
		}
	}
	return t
}

var checkGid = os.Getenv("VERIF_SCHED_CHECK_GID") == "1"

// Now returns the virtual clock (ns) if a scheduler is installed.
func Now() (int64, bool) {
	s := active.Load()
	if s == nil {
		return 0, false
	}
	return atomic.LoadInt64(&s.now), true
}

// Point parks the thread before operation kind on res until the scheduler lets it continue.
func (t *Thread) Point(kind OpKind, res Resource) {
	t.pending, t.res = kind, res
	t.Points++
	t.s.yield <- t
	<-t.wake
}

// Sleep is a yielding point that advances the virtual clock.
func (t *Thread) Sleep(d int64) {
	atomic.AddInt64(&t.s.now, d)
	t.yielding = true
	t.Point(OpSleep, nil)
}

// HorizonError is panicked inside a thread when the execution exceeded its horizon, to unwind it.
type horizonAbort struct{}

func (s *Sched) enabled(t *Thread) bool {
	if t.done {
		return false
	}
	if t.res != nil && (t.pending == OpLock || t.pending == OpRLock || t.pending == OpOnce) {
		return t.res.CanAcquire(t.pending, t)
	}
	return true
}

// Run executes bodies under the scheduler. choose(i, rec) returns the index into rec.Cands of the
// thread to run at decision i. Returns the trace. Not reentrant; one Run per process at a time.
func Run(bodies []func(t *Thread), choose func(i int, cands []int, runningInCands bool) int, maxPoints int) (tr *Trace, threads []*Thread) {
	s := &Sched{yield: make(chan *Thread), maxPoints: maxPoints}
	if !active.CompareAndSwap(nil, s) {
		panic("vsched: scheduler already active")
	}
	defer active.Store(nil)
	for i := range bodies {
		s.threads = append(s.threads, &Thread{ID: i, s: s, wake: make(chan struct{})})
	}
	for i, b := range bodies {
		t := s.threads[i]
		body := b
		go func() {
			s.byGid.Store(gid(), t)
			defer func() {
				if x := recover(); x != nil {
					if _, ok := x.(horizonAbort); !ok {
						t.PanicVal = x
						t.PanicStk = string(debug.Stack())
					}
				}
				t.done = true
				s.yield <- t
			}()
			t.pending = OpStart
			s.yield <- t
			<-t.wake
			body(t)
		}()
	}
	// wait for all threads to park at their start point
	for range bodies {
		<-s.yield
	}
	aborting := false
	for {
		var cands, yielders []int
		alive := 0
		for _, t := range s.threads {
			if t.done {
				continue
			}
			alive++
			if !s.enabled(t) {
				continue
			}
			if t.yielding {
				yielders = append(yielders, t.ID)
			} else {
				cands = append(cands, t.ID)
			}
		}
		if alive == 0 {
			break
		}
		if len(cands) == 0 {
			cands = yielders
			for _, id := range yielders {
				s.threads[id].yielding = false
			}
		}
		if len(cands) == 0 {
			s.trace.Deadlock = true
			for _, t := range s.threads {
				if !t.done {
					s.trace.Blocked = append(s.trace.Blocked, t.ID)
				}
			}
			// leave blocked goroutines parked forever (they hold no real locks that matter:
			// the system under test is discarded)
			break
		}
		runningIn := false
		if s.running != nil && !s.running.done {
			for i, id := range cands {
				if id == s.running.ID {
					cands[0], cands[i] = cands[i], cands[0]
					// keep the rest ascending
					rest := cands[1:]
					for a := 1; a < len(rest); a++ {
						for b := a; b > 0 && rest[b] < rest[b-1]; b-- {
							rest[b], rest[b-1] = rest[b-1], rest[b]
						}
					}
					runningIn = true
					break
				}
			}
		}
		idx := 0
		if !aborting {
			if len(s.trace.Points) >= s.maxPoints {
				s.trace.Horizon = true
				aborting = true
			} else if len(cands) > 1 {
				idx = choose(len(s.trace.Points), cands, runningIn)
				if idx < 0 || idx >= len(cands) {
					panic(fmt.Sprintf("vsched: choice %d out of range at point %d (cands %v)", idx, len(s.trace.Points), cands))
				}
			}
			if !aborting {
				s.trace.Points = append(s.trace.Points, PointRec{Cands: append([]int{}, cands...), Chosen: idx, RunningInCands: runningIn})
			}
		}
		if aborting {
			// horizon reached: stop exploring; abandon remaining threads parked.
			break
		}
		t := s.threads[cands[idx]]
		if s.running != t {
			// another thread progressed: yielders may run again
			for _, o := range s.threads {
				if o != t {
					o.yielding = false
				}
			}
		}
		s.running = t
		t.wake <- struct{}{}
		select {
		case <-s.yield:
		case <-time.After(20 * time.Second):
			s.trace.Stuck = true
			s.trace.VirtualNow = s.now
			return &s.trace, s.threads
		}
	}
	s.trace.VirtualNow = s.now
	return &s.trace, s.threads
}

// Explorer is the preemption-bounded DFS over schedules.
type Explorer struct {
	Bound     int // max preemptions
	MaxPoints int // horizon per execution
	// Exec runs one execution with the given chooser and returns its trace. It must build a
	// fresh system each time.
	Exec func(choose func(i int, cands []int, runningInCands bool) int) *Trace
	// Check is called after every complete execution.
	Check func(tr *Trace)
	// Stop is polled between executions.
	Stop func() bool

	Executions int64
	MaxPointsSeen int
	Stopped    bool
	Diverged   error
}

func (e *Explorer) run(prefix []int) *Trace {
	tr := e.Exec(func(i int, cands []int, runningIn bool) int {
		if i < len(prefix) {
			return prefix[i]
		}
		return 0
	})
	e.Executions++
	if len(tr.Points) > e.MaxPointsSeen {
		e.MaxPointsSeen = len(tr.Points)
	}
	return tr
}

// Explore runs the DFS from the empty prefix.
func (e *Explorer) Explore() { e.explore(nil, nil) }

func (e *Explorer) explore(prefix []int, expectCands [][]int) {
	if e.Stopped || e.Diverged != nil {
		return
	}
	if e.Stop != nil && e.Stop() {
		e.Stopped = true
		return
	}
	x := e.run(prefix)
	// replay divergence check: the candidate sets along the prefix must equal the recorded ones
	for i := 0; i < len(expectCands) && i < len(x.Points); i++ {
		if !eqInts(expectCands[i], x.Points[i].Cands) {
			e.Diverged = fmt.Errorf("schedule replay diverged at point %d: recorded cands %v, now %v (prefix %v)", i, expectCands[i], x.Points[i].Cands, prefix)
			return
		}
	}
	if len(x.Points) < len(prefix) {
		e.Diverged = fmt.Errorf("schedule replay shorter than prefix: %d < %d", len(x.Points), len(prefix))
		return
	}
	if e.Check != nil {
		e.Check(x)
	}
	choices := x.Choices()
	cands := make([][]int, len(x.Points))
	for i, p := range x.Points {
		cands[i] = p.Cands
	}
	for i := len(prefix); i < len(x.Points); i++ {
		p := x.Points[i]
		cost := x.PreemptionsBefore(i)
		if p.RunningInCands {
			cost++
		}
		if cost > e.Bound {
			continue
		}
		for alt := 1; alt < len(p.Cands); alt++ {
			np := append(append(make([]int, 0, i+1), choices[:i]...), alt)
			e.explore(np, cands[:i+1])
			if e.Stopped || e.Diverged != nil {
				return
			}
		}
	}
}

func eqInts(a, b []int) bool {
	if len(a) != len(b) {
		return false
	}
	for i := range a {
		if a[i] != b[i] {
			return false
		}
	}
	return true
}
