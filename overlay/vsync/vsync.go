// Package vsync replaces "sync" in go-mysql-server sources under the sched overlay.
package vsync

import (
	"sync"

	"github.com/dolthub/go-mysql-server/verifshim/vsched"
)

type (
	WaitGroup = sync.WaitGroup
	Pool      = sync.Pool
	Cond      = sync.Cond
	Locker    = sync.Locker
	Map       = sync.Map
)

func NewCond(l Locker) *Cond { return sync.NewCond(l) }

// Mutex is sync.Mutex with a scheduling point before Lock and logical ownership state.
type Mutex struct {
	mu   sync.Mutex
	held bool
}

func (m *Mutex) CanAcquire(k vsched.OpKind, t *vsched.Thread) bool { return !m.held }

func (m *Mutex) Lock() {
	if t := vsched.Cur(); t != nil {
		t.Point(vsched.OpLock, m)
		m.held = true
	}
	m.mu.Lock()
}

func (m *Mutex) TryLock() bool {
	t := vsched.Cur()
	if t != nil {
		t.Point(vsched.OpAtomic, nil)
	}
	ok := m.mu.TryLock()
	if ok && t != nil {
		m.held = true
	}
	return ok
}

func (m *Mutex) Unlock() {
	if t := vsched.Cur(); t != nil {
		m.held = false
	}
	m.mu.Unlock()
}

// RWMutex is sync.RWMutex with scheduling points before Lock/RLock and logical state. Writer
// preference (a waiting writer blocking new readers) is not modelled.
type RWMutex struct {
	mu      sync.RWMutex
	writer  bool
	readers int
}

func (m *RWMutex) CanAcquire(k vsched.OpKind, t *vsched.Thread) bool {
	if k == vsched.OpRLock {
		return !m.writer
	}
	return !m.writer && m.readers == 0
}

func (m *RWMutex) Lock() {
	if t := vsched.Cur(); t != nil {
		t.Point(vsched.OpLock, m)
		m.writer = true
	}
	m.mu.Lock()
}

func (m *RWMutex) Unlock() {
	if t := vsched.Cur(); t != nil {
		m.writer = false
	}
	m.mu.Unlock()
}

func (m *RWMutex) RLock() {
	if t := vsched.Cur(); t != nil {
		t.Point(vsched.OpRLock, m)
		m.readers++
	}
	m.mu.RLock()
}

func (m *RWMutex) RUnlock() {
	if t := vsched.Cur(); t != nil {
		m.readers--
	}
	m.mu.RUnlock()
}

func (m *RWMutex) TryLock() bool {
	t := vsched.Cur()
	if t != nil {
		t.Point(vsched.OpAtomic, nil)
	}
	ok := m.mu.TryLock()
	if ok && t != nil {
		m.writer = true
	}
	return ok
}

func (m *RWMutex) TryRLock() bool {
	t := vsched.Cur()
	if t != nil {
		t.Point(vsched.OpAtomic, nil)
	}
	ok := m.mu.TryRLock()
	if ok && t != nil {
		m.readers++
	}
	return ok
}

type rlocker RWMutex

func (r *rlocker) Lock()   { (*RWMutex)(r).RLock() }
func (r *rlocker) Unlock() { (*RWMutex)(r).RUnlock() }

func (m *RWMutex) RLocker() Locker { return (*rlocker)(m) }

// Once is sync.Once with a scheduling point; a thread arriving while another runs f blocks.
type Once struct {
	mu      sync.Mutex
	done    bool
	running bool
}

func (o *Once) CanAcquire(k vsched.OpKind, t *vsched.Thread) bool { return !o.running }

func (o *Once) Do(f func()) {
	t := vsched.Cur()
	if t == nil {
		o.mu.Lock()
		defer o.mu.Unlock()
		if !o.done {
			defer func() { o.done = true }()
			f()
		}
		return
	}
	t.Point(vsched.OpOnce, o)
	if o.done {
		return
	}
	o.running = true
	defer func() { o.done = true; o.running = false }()
	f()
}

func OnceFunc(f func()) func() {
	var o Once
	return func() { o.Do(f) }
}

func OnceValue[T any](f func() T) func() T {
	var o Once
	var v T
	return func() T {
		o.Do(func() { v = f() })
		return v
	}
}

func OnceValues[T1, T2 any](f func() (T1, T2)) func() (T1, T2) {
	var o Once
	var v1 T1
	var v2 T2
	return func() (T1, T2) {
		o.Do(func() { v1, v2 = f() })
		return v1, v2
	}
}
