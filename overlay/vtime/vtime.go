// Package vtime replaces "time" in sql/lock_subsystem.go under the sched overlay: a virtual clock
// whose Sleep is a yielding scheduling point (so the GET_LOCK polling loop is explored without
// unrolling it against the wall clock). With no scheduler installed it is the real clock.
package vtime

import (
	"time"

	"github.com/dolthub/go-mysql-server/verifshim/vsched"
)

type (
	Duration = time.Duration
	Time     = time.Time
)

const (
	Nanosecond  = time.Nanosecond
	Microsecond = time.Microsecond
	Millisecond = time.Millisecond
	Second      = time.Second
	Minute      = time.Minute
	Hour        = time.Hour
)

var epoch = time.Unix(1_700_000_000, 0)

func Now() Time {
	if n, ok := vsched.Now(); ok {
		return epoch.Add(time.Duration(n))
	}
	return time.Now()
}

func Since(t Time) Duration {
	if _, ok := vsched.Now(); ok {
		return Now().Sub(t)
	}
	return time.Since(t)
}

func Sleep(d Duration) {
	if t := vsched.Cur(); t != nil {
		t.Sleep(int64(d))
		return
	}
	time.Sleep(d)
}
