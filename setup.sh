#!/bin/bash
# Offline setup: generate overlays from /repo's current tree, build the checker binaries and warm
# the Go build cache (all under /verif/.build). Safe to re-run.
set -eu
cd "$(dirname "$0")"
. ./env.sh
B="$VERIF_ROOT/.build"
(cd mc/cmd/ovgen && $GO build -o "$B/bin/ovgen" .)
cmp -s "$REPO/go.sum" mc/go.sum || cat "$REPO/go.sum" mc/go.sum.extra 2>/dev/null > mc/go.sum
"$B/bin/ovgen" -repo "$REPO" -verif "$VERIF_ROOT" -out "$B"
(cd mc && $GO build -tags verif -overlay "$B/overlay.json" -o "$B/bin/mc" ./cmd/mc)
if [ -d mc/cmd/mcs ]; then
  (cd mc && $GO build -tags verif -overlay "$B/overlay-sched.json" -o "$B/bin/mcs" ./cmd/mcs)
fi
echo "setup ok"
