#!/bin/bash
# Offline setup: generate overlays from /repo's current tree, build one checker binary per
# property (mc/cmd/cNN) and warm the Go build cache (all under /verif/.build). Safe to re-run.
set -eu
cd "$(dirname "$0")"
. ./env.sh
B="$VERIF_ROOT/.build"
(cd mc/cmd/ovgen && $GO build -o "$B/bin/ovgen" .)
cmp -s "$REPO/go.sum" mc/go.sum || cat "$REPO/go.sum" mc/go.sum.extra 2>/dev/null > mc/go.sum
"$B/bin/ovgen" -repo "$REPO" -verif "$VERIF_ROOT" -out "$B"
cd mc
# compile shared packages once per overlay, then link the per-property binaries in parallel
plain=(); sched=()
for d in cmd/c[0-9]*; do
  if [ -f "$d/SCHED" ]; then sched+=("$d"); else plain+=("$d"); fi
done
fail=0
if [ ${#plain[@]} -gt 0 ]; then
  $GO build -tags verif -overlay "$B/overlay.json" -o "$B/bin/" $(printf './%s ' "${plain[@]}") || fail=1
fi
if [ ${#sched[@]} -gt 0 ]; then
  $GO build -tags verif -overlay "$B/overlay-sched.json" -o "$B/bin/" $(printf './%s ' "${sched[@]}") || fail=1
fi
if [ $fail = 0 ]; then echo "setup ok"; else echo "setup: some binaries failed to build" >&2; exit 1; fi
