#!/usr/bin/env python3
# flip_known.py <sha> <line-number>... : mark known_findings.jsonl lines as fixed by /repo commit <sha>
import json,sys
sha=sys.argv[1]; nums=[int(x) for x in sys.argv[2:]]
p='/verif/known_findings.jsonl'; L=open(p).read().split('\n')
for n in nums:
    d=json.loads(L[n-1]); assert d['status']=='known', (n,d['status'])
    d['status']='fixed'; d['what']=f"fixed: property={d['property']} {sha} "+d['what']; d['commit']=sha
    L[n-1]=json.dumps(d)
    print('flipped',n,d['property'],str(d['signature'])[:120])
open(p,'w').write('\n'.join(L))
