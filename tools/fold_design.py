#!/usr/bin/env python3
"""Rebuilds the generated appendices of DESIGN.md (between the markers) from design.d/*.md,
known_findings.jsonl, mutants/*/RESULTS.md presence and tools/ready.txt."""
import json, os, re, glob
root = os.path.dirname(os.path.dirname(os.path.abspath(__file__)))
p = os.path.join(root, 'DESIGN.md')
s = open(p).read()
BEGIN, END = '<!-- GENERATED-APPENDICES-BEGIN -->', '<!-- GENERATED-APPENDICES-END -->'
parts = []
# findings
kf = [json.loads(l) for l in open(os.path.join(root, 'known_findings.jsonl')) if l.strip()]
parts.append('## Appendix C. Findings on the unchanged tree (generated from known_findings.jsonl)\n')
parts.append('Genuine defects of go-mysql-server that the checks reported and that were classified per §4. '
             '`fixed` entries were repaired by a `fix:` commit in /repo (they suppress nothing); `known` entries are recorded, '
             'matched by signature, printed as KNOWN-FINDING and do not fail the check.\n')
for status in ('fixed', 'known'):
    parts.append(f'\n### {status}\n')
    for k in kf:
        if k.get('status') == status:
            what = k.get('what', '').replace('\n', ' ')
            c = (' (' + k['commit'] + ')') if k.get('commit') else ''
            parts.append(f"* **{k['property']}**{c}: {what}")
parts.append('\n## Appendix D. Per-property as-built notes (generated from design.d/)\n')
for f in sorted(glob.glob(os.path.join(root, 'design.d', 'C*.md'))):
    body = open(f).read().strip()
    body = re.sub(r'^# ', '### ', body, flags=re.M)
    body = re.sub(r'^## ', '#### ', body, flags=re.M)
    parts.append(body + '\n')
gen = BEGIN + '\n' + '\n'.join(parts) + '\n' + END
if BEGIN in s:
    s = s[:s.index(BEGIN)] + gen + s[s.index(END) + len(END):]
else:
    s = s.rstrip() + '\n\n' + gen + '\n'
open(p, 'w').write(s)
print('appendices regenerated:', len(kf), 'findings,', len(glob.glob(os.path.join(root, 'design.d', 'C*.md'))), 'notes')
