#!/usr/bin/env python3
"""Rebuilds the generated appendices of DESIGN.md (between the markers) from design.d/*.md,
known_findings.jsonl, mutants/*/RESULTS.md presence and tools/ready.txt."""
import json, os, re, glob
root = os.path.dirname(os.path.dirname(os.path.abspath(__file__)))
p = os.path.join(root, 'DESIGN.md')
s = open(p).read()
BEGIN, END = '<!-- GENERATED-APPENDICES-BEGIN -->', '<!-- GENERATED-APPENDICES-END -->'
parts = []
# findings
kf = [json.loads(l) for l in open(os.path.join(root, 'known_findings.jsonl')) if l.strip()]
parts.append('## Appendix C. Findings on the unchanged tree (generated from known_findings.jsonl)\n')
parts.append('Genuine defects of go-mysql-server that the checks reported and that were classified per §4. '
             '`fixed` entries were repaired by a `fix:` commit in /repo (they suppress nothing); `known` entries are recorded, '
             'matched by signature, printed as KNOWN-FINDING and do not fail the check.\n')
for status in ('fixed', 'known'):
    parts.append(f'\n### {status}\n')
    for k in kf:
        if k.get('status') == status:
            what = k.get('what', '').replace('\n', ' ')
            c = (' (' + k['commit'] + ')') if k.get('commit') else ''
            parts.append(f"* **{k['property']}**{c}: {what}")
parts.append('\n## Appendix D. Per-property as-built notes (generated from design.d/)\n')
for f in sorted(glob.glob(os.path.join(root, 'design.d', 'C*.md'))):
    body = open(f).read().strip()
    body = re.sub(r'^# ', '### ', body, flags=re.M)
    body = re.sub(r'^## ', '#### ', body, flags=re.M)
    parts.append(body + '\n')
# seeded defects
parts.append('\n## Appendix E. Independently seeded defects (generated from seeded/*/meta.json)\n')
parts.append('Each change was written by a fresh sub-agent that saw only the property text and a scratch worktree, '
             'confirmed by `tools/verify_seeded.sh` (demonstration fails with / passes without the change; the pinned baseline packages still pass with it), '
             'and then run against the property\'s check through `tools/with_patch.sh` (build overlay; /repo is not touched, because other builders were using /repo concurrently). '
             '"strengthened" = the first run missed it and the check was extended; the note says how.\n')
parts.append('| seeded change | property | what it does | needs | outcome |')
parts.append('|---|---|---|---|---|')
rows_caught = rows_str = rows_missed = 0
for f in sorted(glob.glob(os.path.join(root, 'seeded', '*', 'meta.json'))):
    m = json.load(open(f)); v = m.get('verified', {})
    name = os.path.basename(os.path.dirname(f))
    if not v:
        outcome = 'not yet verified'
    elif v.get('caught') and v.get('caught_first_run') is False:
        outcome = 'caught after strengthening: ' + v.get('strengthening', '')[:400]; rows_str += 1
    elif v.get('caught'):
        outcome = 'caught (exit 1)' + (' — ' + v['note'][:300] if v.get('note') else ''); rows_caught += 1
    else:
        outcome = '**not caught by the check** — ' + v.get('note', '')[:600]; rows_missed += 1
    cell = lambda x: str(x).replace('|', '/').replace('\n', ' ')
    parts.append(f"| `{name}` | {m.get('property')} | {cell(m.get('summary',''))[:300]} | {cell(m.get('needs',''))[:300]} | {cell(outcome)} |")
parts.append(f'\nTotals: {rows_caught} caught on the first run, {rows_str} caught after strengthening the check, {rows_missed} not caught by a registered check.\n')
gen = BEGIN + '\n' + '\n'.join(parts) + '\n' + END
if BEGIN in s:
    s = s[:s.index(BEGIN)] + gen + s[s.index(END) + len(END):]
else:
    s = s.rstrip() + '\n\n' + gen + '\n'
open(p, 'w').write(s)
print('appendices regenerated:', len(kf), 'findings,', len(glob.glob(os.path.join(root, 'design.d', 'C*.md'))), 'notes')
