#!/bin/bash
# integrate.sh C16 C20 ... : run each check's quick tier on the unchanged tree, log exit codes.
cd "$(dirname "$0")/.."
for id in "$@"; do
  ./check $id quick > .build/int-$id.log 2>&1
  echo "$id rc=$? $(grep "^$id quick:" .build/int-$id.log | cut -c1-170)" >> .build/int-summary.log
done
