#!/bin/bash
# mkseed.sh CNN [suffix] — scratch worktree /tmp/seed-CNN[suffix] of /repo HEAD (with the stand-in for the
# empty spatial_reference_systems.go) and the fault-seeder prompt for that property on stdout.
set -eu
P="$1"; SUF="${2:-}"; WT=/tmp/seed-$P$SUF
cd "$(dirname "$0")/.."
[ -d "$WT" ] || git -C /repo worktree add --detach "$WT" HEAD >/dev/null 2>&1
cp overlay/srs_stub.go "$WT/sql/types/spatial_reference_systems.go"
mkdir -p "$WT/SEEDED"
python3 - "$P" "$WT" <<'PY'
import json,sys
p,wt=sys.argv[1:3]
for l in open('/verif/properties.jsonl'):
    d=json.loads(l)
    if d['id']==p: break
tmpl=open('/verif/.build/seedprompts/C46.txt').read()
head,rest=tmpl.split('  C46 — ',1)
_,tail=rest.split('\n\nYour task:',1)
anch=d.get('anchors') or d.get('code') or d.get('anchor')
if isinstance(anch,dict): anch=anch.get('files')
if isinstance(anch,list): anch=', '.join(a if isinstance(a,str) else json.dumps(a) for a in anch)
q=d.get('quantifier'); q=q.get('text') if isinstance(q,dict) else q
d['quantifier']=q
body=f"  {p} — {d.get('title','')}\n  Statement: {d.get('statement','')}\n  Quantifier: {d.get('quantifier','')}\n  Code it is anchored in: {anch}"
out=(head+body+'\n\nYour task:'+tail).replace('/tmp/seed-C46',wt).replace('"C46"',f'"{p}"')
print(out)
PY
