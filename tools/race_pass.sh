#!/bin/bash
# Auxiliary, free-running -race pass over the C36 scenario bodies (NOT a registered check: it samples
# schedules and is outside the model-checking family; see DESIGN §0/§3.4). exit 0 = no race seen,
# 66 = the Go race detector reported a data race.
set -u
cd "$(dirname "$0")/.."
. ./env.sh
B="$VERIF_ROOT/.build"; OVD="$B"; SUF=""
if [ -n "${VERIF_EXTRA_OVERLAY:-}" ]; then SUF="-x$(echo "$VERIF_EXTRA_OVERLAY" | md5sum | cut -c1-8)"; OVD="$B/ov$SUF"; mkdir -p "$OVD"; fi
"$B/bin/ovgen" -repo "$REPO" -verif "$VERIF_ROOT" -out "$OVD" || exit 2
(cd mc && CGO_ENABLED=1 $GO build -race -tags verif -overlay "$OVD/overlay.json" -o "$B/bin/racepass$SUF" ./cmd/racepass) || { echo "build failed" >&2; exit 2; }
GORACE="halt_on_error=1 exitcode=66" "$B/bin/racepass$SUF" "${1:-40}" > "$B/racepass$SUF.log" 2>&1
rc=$?
grep -m1 -A24 "WARNING: DATA RACE" "$B/racepass$SUF.log"
grep "^racepass" "$B/racepass$SUF.log"
exit $rc
