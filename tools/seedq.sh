#!/bin/bash
# processes lines "name worktree property" appended to .build/seedq.txt, one at a time
cd "$(dirname "$0")/.."
touch .build/seedq.txt .build/seedq.done
while true; do
  line=$(grep -vxFf .build/seedq.done .build/seedq.txt | head -1)
  if [ -z "$line" ]; then sleep 30; continue; fi
  set -- $line
  tools/verify_seeded.sh $1 $2 $3 > .build/vs-$3-$1.log 2>&1
  echo "$line" >> .build/seedq.done
done
