#!/bin/bash
# thorough.sh C49 C37 ... : run each check's thorough tier, log one line per check.
cd "$(dirname "$0")/.."
for id in "$@"; do
  ./check $id thorough > .build/thorough-$id.log 2>&1
  echo "$id rc=$? $(grep "^$id thorough:" .build/thorough-$id.log | cut -c1-200)" >> .build/thorough-summary.log
done
