#!/bin/bash
# try_fix.sh <diff> <prop> : apply a fix diff to /repo's working tree, build, run neighbouring repo tests and the
# property's quick check. Leaves the diff APPLIED (uncommitted) on success (exit 0); reverts it on failure.
set -u
DIFF="$(readlink -f "$1")"; PROP="$2"
cd "$(dirname "$0")/.."; . ./env.sh
L=.build/tryfix-$(basename "$DIFF" .diff).log; : > $L
[ -z "$(git -C /repo status --short)" ] || { echo "repo not clean"; exit 2; }
git -C /repo apply "$DIFF" >> $L 2>&1 || { echo "does not apply"; exit 1; }
fail() { echo "FAIL: $1 (see $L)"; git -C /repo checkout -- .; exit 1; }
(cd /repo && $GO build -overlay /verif/.build/overlay.json ./... ) >> $L 2>&1 || fail build
(cd /repo && $GO test -vet=off -overlay /verif/.build/overlay.json -count=1 ./enginetest -run 'TestStoredProcedures|TestTriggers|TestEvents|TestFulltext|TestScripts$|TestQueriesSimple$|TestLoadData|TestProcedure|TestCall' ) >> $L 2>&1 || fail enginetest
(cd /repo && $GO test -vet=off -overlay /verif/.build/overlay.json -count=1 ./sql/rowexec/... ./sql/planbuilder/... ./sql/fulltext/... ./sql/procedures/... ) >> $L 2>&1 || fail unit
./check $PROP quick > .build/tryfix-check.log 2>&1; rc=$?
grep -c "^KNOWN-FINDING" .build/tryfix-check.log; tail -1 .build/tryfix-check.log | cut -c1-200
[ $rc = 0 ] || { grep -A3 "^VIOLATION" .build/tryfix-check.log | head -12 | cut -c1-300; fail "check rc=$rc"; }
echo "OK: applied, uncommitted"
