#!/bin/bash
# verify_seeded.sh <name> <worktree> <property> [check-tier]
# Confirms a sub-agent's seeded defect in its scratch worktree (demo fails with / passes without,
# pinned baseline packages still pass with the patch), stores it under /verif/seeded/<name>/ and
# runs the property's check against it through tools/with_patch.sh (overlay; /repo untouched).
set -u
NAME="$1"; WT="$2"; PROP="$3"; TIER="${4:-quick}"
cd "$(dirname "$0")/.."
. ./env.sh
D=seeded/$NAME; mkdir -p $D
cp $WT/SEEDED/patch.diff $WT/SEEDED/meta.json $D/ 2>/dev/null
for f in $WT/SEEDED/*; do case "$f" in *TASK.md|*patch.diff|*meta.json|*/scratch) ;; *) cp -r "$f" $D/;; esac; done
DEMO=$(python3 -c "
import json,re
d=json.load(open('$D/meta.json'))['demo']
d=re.split(r'\s{2,}\(|\s+\((?:file|run|from|it |the )', d)[0]
print(d)")
LOG=$D/verification.log; : > $LOG
run() { (cd $WT && export GOFLAGS=-mod=mod GOPROXY=off GOSUMDB=off GOTOOLCHAIN=local && eval "$1") >> $LOG 2>&1; }
echo "== patch applies to /repo HEAD:" >> $LOG
git -C /repo apply --check $PWD/$D/patch.diff >> $LOG 2>&1 && echo yes >> $LOG || echo "NO (worktree base differs)" >> $LOG
echo "== demo WITH patch (expect FAIL)" >> $LOG
run "$DEMO"; WITH=$?
echo "== demo WITHOUT patch (expect PASS)" >> $LOG
(cd $WT && git apply -R SEEDED/patch.diff) >> $LOG 2>&1
run "$DEMO"; WITHOUT=$?
(cd $WT && git apply SEEDED/patch.diff) >> $LOG 2>&1
echo "== pinned baseline packages WITH patch (demo test files moved aside)" >> $LOG
ASIDE=$(mktemp -d "$VERIF_ROOT/.build/aside.XXXX")
(cd $WT && git ls-files --others --exclude-standard | grep '_test.go$' | grep -v '^SEEDED/' | while read f; do mkdir -p "$ASIDE/$(dirname "$f")"; mv "$f" "$ASIDE/$f"; done)
run "go1.26.8 test -vet=off -count=1 ./enginetest/scriptgen/setup ./errguard ./internal/regex ./internal/similartext ./internal/strings ./optgen/cmd/support ./sql/in_mem_table ./sql/planbuilder/dateparse ./sql/sqlredact"; BASE=$?
(cd "$ASIDE" && find . -type f | while read f; do mv "$f" "$WT/$f"; done); rm -rf "$ASIDE"
echo "== check $PROP $TIER against the patch" >> $LOG
VERIF_NO_RECHECK=1 tools/with_patch.sh $D/patch.diff -- ./check $PROP $TIER > $D/check-output.txt 2>&1; CHK=$?
grep -m3 "VIOLATION\|HARNESS" $D/check-output.txt >> $LOG
python3 - "$D" "$WITH" "$WITHOUT" "$BASE" "$CHK" "$PROP" "$TIER" <<'PY'
import json,sys
d,w,wo,b,c,prop,tier=sys.argv[1:8]
m=json.load(open(d+'/meta.json'))
m['verified']={'demo_fails_with_patch': w!='0','demo_passes_without_patch': wo=='0','baseline_packages_pass_with_patch': b=='0',
  'check': f'tools/with_patch.sh seeded/{d.split("/")[-1]}/patch.diff -- ./check {prop} {tier}','check_exit': int(c),'caught': c=='1'}
json.dump(m,open(d+'/meta.json','w'),indent=1)
print(d, m['verified'])
PY
