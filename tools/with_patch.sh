#!/bin/bash
# with_patch.sh <patch.diff> -- <command...>
# Runs <command> (normally ./check Cxx quick) against /repo *as if* the patch were applied, without
# touching /repo: the touched files are copied to a scratch directory under /verif/.build, patched
# there, and injected with VERIF_EXTRA_OVERLAY (go build -overlay).
set -eu
PATCH="$(readlink -f "$1")"; shift
[ "$1" = "--" ] && shift
cd "$(dirname "$0")/.."
. ./env.sh
H=$(md5sum "$PATCH" | cut -c1-10)
D="$VERIF_ROOT/.build/patched/$H"
rm -rf "$D"; mkdir -p "$D/tree"
files=$(grep -E '^\+\+\+ ' "$PATCH" | sed -E 's#^\+\+\+ (b/)?##; s#\t.*##' | grep -v '^/dev/null' | sort -u)
for f in $files; do
  mkdir -p "$D/tree/$(dirname "$f")"
  [ -f "$REPO/$f" ] && cp "$REPO/$f" "$D/tree/$f"
done
patch -s -p1 -d "$D/tree" < "$PATCH"
{
  echo '{"Replace": {'
  first=1
  for f in $files; do
    [ $first = 1 ] || echo ','
    first=0
    printf '  "%s": "%s"' "$REPO/$f" "$D/tree/$f"
  done
  echo; echo '}}'
} > "$D/overlay.json"
export VERIF_EXTRA_OVERLAY="$D/overlay.json"
set +e
"$@"
rc=$?
rm -rf "$D"
rm -f "$VERIF_ROOT"/.build/bin/*-x"$(echo "$VERIF_EXTRA_OVERLAY" | md5sum | cut -c1-8)"; rm -rf "$VERIF_ROOT"/.build/ov-x"$(echo "$VERIF_EXTRA_OVERLAY" | md5sum | cut -c1-8)"
exit $rc
